"""Seed derivation. Never uses Python's hash() (PYTHONHASHSEED dependent)."""
from __future__ import annotations

import hashlib
import random

DEFAULT_VERIF_SEED = 20261004

# (worker PYTHONHASHSEED, peer PYTHONHASHSEED) pairs; a run's pair is a function of its run seed.
HASHSEED_TABLE = [(11, 29), (101, 7), (4242, 1234), (0, 99)]


def derive(*parts: object) -> int:
    """A 63-bit integer derived from the given parts with blake2b."""
    h = hashlib.blake2b(":".join(str(p) for p in parts).encode("utf-8"), digest_size=8)
    return int.from_bytes(h.digest(), "big") >> 1


def run_seed(verif_seed: int, prop: str, index: int) -> int:
    return derive(verif_seed, prop, index)


def hashseed_group(rseed: int) -> int:
    return derive(rseed, "hashseed-group") % len(HASHSEED_TABLE)


class Rng:
    """Named sub-streams so that adding a draw in one stream never perturbs another."""

    def __init__(self, seed: int) -> None:
        self.seed = seed
        self._streams: dict[str, random.Random] = {}

    def s(self, name: str) -> random.Random:
        r = self._streams.get(name)
        if r is None:
            r = self._streams[name] = random.Random(derive(self.seed, "stream", name))
        return r


def weighted(r: random.Random, pairs: list[tuple[str, float]]) -> str:
    total = 0.0
    for _, w in pairs:
        total += w
    x = r.random() * total
    acc = 0.0
    for k, w in pairs:
        acc += w
        if x < acc:
            return k
    return pairs[-1][0]
