"""Worker process: imports pyoak + the machine once, then executes every job in a forked child so that each
run starts from the same pristine post-import process image (registry, caches, generated accessors).

Protocol: one JSON job per stdin line -> one JSON result per stdout line.
The interpreter's PYTHONHASHSEED is part of the run's configuration and is set by whoever execs the worker.
"""
from __future__ import annotations

import importlib
import json
import os
import select
import signal
import sys
import time
import traceback

RUN_TIMEOUT_S = float(os.environ.get("VERIF_RUN_TIMEOUT", "60"))


def _setup_path() -> None:
    repo_src = os.environ.get("VERIF_REPO_SRC", "/repo/src")
    here = os.path.dirname(os.path.dirname(os.path.abspath(__file__)))
    for p in (here, repo_src):
        if p in sys.path:
            sys.path.remove(p)
    sys.path.insert(0, here)
    sys.path.insert(0, repo_src)


COV_DIR = os.environ.get("VERIF_COV_DIR")  # reach measurement only (tools/reach.py); off in every registered command


def _cov_start() -> set:
    lines: set = set()
    root = os.path.realpath(os.environ.get("VERIF_REPO_SRC", "/repo/src")) + "/pyoak/"
    mon = sys.monitoring
    mon.use_tool_id(mon.COVERAGE_ID, "verif-reach")

    def on_line(code, line):  # noqa: ANN001
        fn = code.co_filename
        if fn.startswith(root):
            lines.add((fn[len(root) :], line))
        return mon.DISABLE

    mon.register_callback(mon.COVERAGE_ID, mon.events.LINE, on_line)
    mon.set_events(mon.COVERAGE_ID, mon.events.LINE)
    return lines


def _cov_dump(lines: set, job: dict) -> None:
    sys.monitoring.set_events(sys.monitoring.COVERAGE_ID, 0)
    with open(os.path.join(COV_DIR, f"{job['prop']}-{os.getpid()}-{job.get('rseed')}.cov"), "w") as f:
        f.write("\n".join(f"{a}:{b}" for a, b in sorted(lines)))


def _child(job: dict, M, wfd: int, peer) -> None:
    cov = _cov_start() if COV_DIR else None
    try:
        _child_inner(job, M, wfd, peer)
    finally:
        if cov is not None:
            _cov_dump(cov, job)


def _child_inner(job: dict, M, wfd: int, peer) -> None:
    try:
        if job.get("mode") == "replay":
            cfg = job["cfg"]
            res = M.run(cfg, job["prop"], ops=job["ops"], peer=peer)
        else:
            cfg = M.make_config(job["rseed"], job["prop"], job.get("tier", "quick"), job.get("faults", True))
            for k, v in (job.get("cfg_over") or {}).items():
                cfg[k] = v
            res = M.run(cfg, job["prop"], rseed=job["rseed"], peer=peer)
        res["cfg"] = cfg
        if not job.get("want_ops") and not res.get("violation"):
            res.pop("ops", None)
            res.pop("cfg", None)
        res["jid"] = job.get("jid")
        res["rseed"] = job.get("rseed")
        data = json.dumps(res, default=str)
    except BaseException as e:  # noqa: BLE001 - everything is reported as a harness error
        data = json.dumps(
            {
                "jid": job.get("jid"),
                "rseed": job.get("rseed"),
                "harness_error": f"{type(e).__name__}: {e}",
                "traceback": traceback.format_exc()[-4000:],
            }
        )
    b = data.encode("utf-8")
    off = 0
    while off < len(b):
        off += os.write(wfd, b[off : off + 65536])
    os.close(wfd)


def run_forked(job: dict, M, peer) -> dict:
    rfd, wfd = os.pipe()
    sys.stdout.flush()
    sys.stderr.flush()
    pid = os.fork()
    if pid == 0:
        code = 0
        try:
            os.close(rfd)
            _child(job, M, wfd, peer)
        except BaseException:  # noqa: BLE001
            code = 3
        finally:
            os._exit(code)
    os.close(wfd)
    chunks = []
    deadline = time.monotonic() + RUN_TIMEOUT_S
    timed_out = False
    while True:
        left = deadline - time.monotonic()
        if left <= 0:
            timed_out = True
            break
        rl, _, _ = select.select([rfd], [], [], left)
        if not rl:
            timed_out = True
            break
        c = os.read(rfd, 1 << 16)
        if not c:
            break
        chunks.append(c)
    os.close(rfd)
    if timed_out:
        try:
            os.kill(pid, signal.SIGKILL)
        except ProcessLookupError:
            pass
    _, status = os.waitpid(pid, 0)
    if timed_out:
        return {"jid": job.get("jid"), "rseed": job.get("rseed"), "harness_error": f"run timed out after {RUN_TIMEOUT_S}s"}
    if not chunks:
        return {"jid": job.get("jid"), "rseed": job.get("rseed"), "harness_error": f"child died without result, status {status}"}
    try:
        return json.loads(b"".join(chunks).decode("utf-8"))
    except Exception as e:  # noqa: BLE001
        return {"jid": job.get("jid"), "rseed": job.get("rseed"), "harness_error": f"bad child output: {e}"}


def main() -> None:
    _setup_path()
    machine = sys.argv[1]
    # protocol uses the real stdout; anything printed by library/user code goes to stderr
    proto = os.fdopen(os.dup(1), "w", buffering=1)
    os.dup2(2, 1)
    from simkit.core import freeze_gc

    M = importlib.import_module("machines." + machine)
    import pyoak

    peer = None
    if os.environ.get("VERIF_WITH_PEER") == "1":
        from simkit.peer import PeerClient

        peer = PeerClient(int(os.environ.get("VERIF_PEER_HASHSEED", "29")))
    freeze_gc()
    proto.write(json.dumps({"ready": True, "pyoak": pyoak.__file__, "hashseed": os.environ.get("PYTHONHASHSEED")}) + "\n")
    for line in sys.stdin:
        line = line.strip()
        if not line:
            continue
        job = json.loads(line)
        if job.get("quit"):
            break
        res = run_forked(job, M, peer)
        proto.write(json.dumps(res) + "\n")
    if peer is not None:
        peer.close()


if __name__ == "__main__":
    main()
