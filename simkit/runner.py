"""Controller: dispatches seeded runs to hash-seed-grouped worker processes, collects results, minimises and
replays violations, applies the known-findings file, writes evidence.

Exit codes: 0 = property held on everything explored (known findings printed), 1 = VIOLATION, 2 = harness error.
"""
from __future__ import annotations

import json
import os
import queue
import subprocess
import sys
import threading
import time
from collections import Counter
from typing import Any

from . import rng as R
from .shrink import ddmin, simplify_args

VERIF = os.path.dirname(os.path.dirname(os.path.abspath(__file__)))
PY = sys.executable


class Worker:
    def __init__(self, machine: str, hashseed: int, peer_hashseed: int | None = None):
        env = dict(os.environ)
        env["PYTHONHASHSEED"] = str(hashseed)
        env["PYTHONPATH"] = VERIF
        env["PYTHONDONTWRITEBYTECODE"] = "1"
        if peer_hashseed is not None:
            env["VERIF_WITH_PEER"] = "1"
            env["VERIF_PEER_HASHSEED"] = str(peer_hashseed)
        else:
            env.pop("VERIF_WITH_PEER", None)
        self.hashseed = hashseed
        self.p = subprocess.Popen(
            [PY, "-B", "-m", "simkit.worker", machine],
            stdin=subprocess.PIPE,
            stdout=subprocess.PIPE,
            cwd=VERIF,
            env=env,
            text=True,
            bufsize=1,
        )
        self.ready: dict[str, Any] | None = None

    def wait_ready(self) -> dict[str, Any]:
        line = self.p.stdout.readline()
        if not line:
            raise RuntimeError("worker failed to start")
        self.ready = json.loads(line)
        return self.ready

    def call(self, job: dict[str, Any]) -> dict[str, Any]:
        self.p.stdin.write(json.dumps(job) + "\n")
        self.p.stdin.flush()
        line = self.p.stdout.readline()
        if not line:
            return {"jid": job.get("jid"), "rseed": job.get("rseed"), "harness_error": "worker died"}
        return json.loads(line)

    def close(self) -> None:
        try:
            self.p.stdin.write(json.dumps({"quit": True}) + "\n")
            self.p.stdin.flush()
            self.p.stdin.close()
        except Exception:  # noqa: BLE001
            pass
        try:
            self.p.wait(timeout=10)
        except Exception:  # noqa: BLE001
            self.p.kill()


def load_known(prop: str) -> tuple[list[dict[str, Any]], list[str]]:
    path = os.path.join(VERIF, "known_findings.json")
    if not os.path.exists(path):
        return [], []
    data = json.load(open(path))
    open_ = [e for e in data.get("open", []) if e["property"] == prop]
    fixed = [e for e in data.get("fixed", []) if f"property={prop} " in e]
    return open_, fixed


def sig_known(sig: str, known: list[dict[str, Any]]) -> dict[str, Any] | None:
    for e in known:
        if e["signature"] == sig:
            return e
    return None


class Batch:
    def __init__(
        self,
        prop: str,
        machine: str,
        tier: str,
        verif_seed: int,
        n_runs: int,
        wall_cap_s: float,
        with_peer: bool = False,
        nworkers: int | None = None,
        stop_on_violation: bool = True,
        cfg_over: dict[str, Any] | None = None,
        fault_free_every: int = 3,
        sample_ops: int = 3,
    ):
        self.prop = prop
        self.machine = machine
        self.tier = tier
        self.verif_seed = verif_seed
        self.n_runs = n_runs
        self.wall_cap_s = wall_cap_s
        self.with_peer = with_peer
        self.nworkers = nworkers or int(os.environ.get("VERIF_WORKERS", str(min(16, os.cpu_count() or 4))))
        self.nworkers = max(self.nworkers, len(R.HASHSEED_TABLE))
        self.stop_on_violation = stop_on_violation
        self.cfg_over = cfg_over
        self.fault_free_every = fault_free_every
        self.sample_ops = sample_ops
        self.results: list[dict[str, Any]] = []
        self.errors: list[dict[str, Any]] = []
        self.stop = threading.Event()
        self.lock = threading.Lock()
        self.known, self.fixed = load_known(prop)

    def jobs(self) -> list[list[dict[str, Any]]]:
        groups: list[list[dict[str, Any]]] = [[] for _ in R.HASHSEED_TABLE]
        for i in range(self.n_runs):
            rs = R.run_seed(self.verif_seed, self.prop, i)
            job = {
                "jid": i,
                "rseed": rs,
                "prop": self.prop,
                "tier": self.tier,
                "faults": (i % self.fault_free_every) != 0,
                "want_ops": i < self.sample_ops,
            }
            if self.cfg_over:
                job["cfg_over"] = self.cfg_over
            groups[R.hashseed_group(rs)].append(job)
        return groups

    def run(self) -> None:
        t0 = time.monotonic()
        groups = self.jobs()
        qs = []
        for g in groups:
            q: queue.Queue[dict[str, Any]] = queue.Queue()
            for j in g:
                q.put(j)
            qs.append(q)
        ng = len(R.HASHSEED_TABLE)
        workers: list[tuple[Worker, int]] = []
        for w in range(self.nworkers):
            g = w % ng
            hs, phs = R.HASHSEED_TABLE[g]
            workers.append((Worker(self.machine, hs, phs if self.with_peer else None), g))
        for w, _ in workers:
            info = w.wait_ready()
            self.pyoak_path = info.get("pyoak")
        deadline = t0 + self.wall_cap_s

        def loop(w: Worker, g: int) -> None:
            while not self.stop.is_set() and time.monotonic() < deadline:
                try:
                    job = qs[g].get_nowait()
                except queue.Empty:
                    return
                res = w.call(job)
                res["faults_on"] = job["faults"]
                res["group"] = g
                with self.lock:
                    if "harness_error" in res:
                        self.errors.append(res)
                        self.stop.set()
                    else:
                        self.results.append(res)
                        v = res.get("violation")
                        if v and self.stop_on_violation and sig_known(v["sig"], self.known) is None:
                            self.stop.set()

        ths = [threading.Thread(target=loop, args=(w, g), daemon=True) for w, g in workers]
        for t in ths:
            t.start()
        for t in ths:
            t.join()
        for w, _ in workers:
            w.close()
        self.wall = time.monotonic() - t0
        self.results.sort(key=lambda r: r["jid"])

    # ---- violations -----------------------------------------------------------------------
    def replay_once(self, w: Worker, cfg: dict[str, Any], ops: list[dict[str, Any]]) -> dict[str, Any]:
        return w.call({"mode": "replay", "prop": self.prop, "cfg": cfg, "ops": ops, "want_ops": True})

    def minimise(self, res: dict[str, Any]) -> dict[str, Any]:
        """Shrink the trace of a violating run, confirm in a fresh interpreter, write the replay file."""
        g = res["group"]
        hs, phs = R.HASHSEED_TABLE[g]
        sig = res["violation"]["sig"]
        cfg = res["cfg"]
        ops = res["ops"]
        # the violating op is the one that raised: it is not in the recorded trace yet -> recorded by machine
        w = Worker(self.machine, hs, phs if self.with_peer else None)
        w.wait_ready()

        def fails(cand: list[dict[str, Any]]) -> bool:
            r = self.replay_once(w, cfg, cand)
            v = r.get("violation")
            return bool(v) and v["sig"] == sig

        full = ops
        ok0 = fails(full)
        tests = 0
        small = full
        if ok0:
            small, tests = ddmin(full, fails)
            small, t2 = simplify_args(small, fails)
            tests += t2
        w.close()
        # confirm in a fresh interpreter
        w2 = Worker(self.machine, hs, phs if self.with_peer else None)
        w2.wait_ready()
        r2 = self.replay_once(w2, cfg, small)
        w2.close()
        v2 = r2.get("violation")
        confirmed = bool(v2) and v2["sig"] == sig
        rep = {
            "property": self.prop,
            "machine": self.machine,
            "run_seed": res["rseed"],
            "verif_seed": self.verif_seed,
            "hashseed": hs,
            "peer_hashseed": phs if self.with_peer else None,
            "config": cfg,
            "ops": small,
            "violation": v2 if confirmed else res["violation"],
            "minimised_from_steps": len(full),
            "shrink_tests": tests,
            "replay_reproduced_full_trace": ok0,
            "replay_confirmed_in_fresh_interpreter": confirmed,
        }
        rdir = os.environ.get("VERIF_REPLAY_DIR", os.path.join(VERIF, "replays"))
        os.makedirs(rdir, exist_ok=True)
        path = os.path.join(rdir, f"{self.prop}-{res['rseed']}.json")
        with open(path, "w") as f:
            json.dump(rep, f, indent=1, default=str)
        rep["path"] = path
        return rep


def replay_file(path: str) -> int:
    rep = json.load(open(path))
    w = Worker(rep["machine"], rep["hashseed"], rep.get("peer_hashseed"))
    w.wait_ready()
    r = w.call({"mode": "replay", "prop": rep["property"], "cfg": rep["config"], "ops": rep["ops"], "want_ops": True})
    w.close()
    if "harness_error" in r:
        print("HARNESS-ERROR:", r["harness_error"])
        print(r.get("traceback", ""))
        return 2
    v = r.get("violation")
    if v:
        print(f"replayed {len(rep['ops'])} ops: {v['oracle']}: {v['message']}")
        known, _ = load_known(rep["property"])
        k = sig_known(v["sig"], known)
        if k is not None:
            print(f"KNOWN-FINDING: property={rep['property']} {k['signature']} {k['description']}")
            return 0
        print(f"VIOLATION property={rep['property']} replay={path}")
        return 1
    print(f"replayed {len(rep['ops'])} ops: no violation (cut={r.get('cut')})")
    return 0


def aggregate(b: Batch) -> dict[str, Any]:
    ops = Counter()
    outcomes = Counter()
    probes = Counter()
    fired = Counter()
    armed = Counter()
    states: set[str] = set()
    tri: set[str] = set()
    traces_nt: set[str] = set()
    traces_all: set[str] = set()
    steps = 0
    cuts = Counter()
    nfault = 0
    for r in b.results:
        ops.update(r.get("opkinds", {}))
        outcomes.update(r.get("outcomes", {}))
        probes.update(r.get("probes", {}))
        fired.update(r.get("faults_fired", {}))
        armed.update(r.get("faults_armed", {}))
        states.update(r.get("states", []))
        tri.update(r.get("trigrams", []))
        traces_all.add(r.get("trace_digest", ""))
        if r.get("nontrivial"):
            traces_nt.add(r.get("trace_digest", ""))
        steps += r.get("steps", 0)
        if r.get("cut"):
            cuts[str(r["cut"])[:80]] += 1
        if r.get("faults_on"):
            nfault += 1
    return {
        "runs": len(b.results),
        "runs_with_faults_enabled": nfault,
        "runs_fault_free": len(b.results) - nfault,
        "simulated_steps": steps,
        "op_histogram": dict(ops),
        "outcomes": dict(outcomes),
        "probes": dict(probes),
        "faults_fired": dict(fired),
        "faults_armed": dict(armed),
        "distinct_states": len(states),
        "distinct_interleaving_trigrams": len(tri),
        "distinct_traces": len(traces_all),
        "distinct_nontrivial_traces": len(traces_nt),
        "cut_runs": dict(cuts),
    }


def execute(plan: dict[str, Any], prop: str, tier: str, verif_seed: int) -> int:
    """Run a property check per `plan`, print the verdict lines, write evidence.  Returns the exit code."""
    t0 = time.time()
    n = plan["runs"][tier]
    cap = plan["wall_cap"][tier]
    n_env = os.environ.get("VERIF_RUNS")
    if n_env:
        n = int(n_env)
    b = Batch(prop, plan["machine"], tier, verif_seed, n, cap, with_peer=plan.get("peer", False), cfg_over=plan.get("cfg_over"))
    b.run()
    agg = aggregate(b)
    code = 0
    viol_unknown = []
    known_hit: dict[str, dict[str, Any]] = {}
    for r in b.results:
        v = r.get("violation")
        if not v:
            continue
        k = sig_known(v["sig"], b.known)
        if k is not None:
            known_hit.setdefault(k["signature"], {"entry": k, "count": 0, "first_seed": r["rseed"]})
            known_hit[k["signature"]]["count"] += 1
        else:
            viol_unknown.append(r)
    reports = []
    seen_sigs: set[str] = set()
    for r in viol_unknown:
        s = r["violation"]["sig"]
        if s in seen_sigs or len(reports) >= 3:
            continue
        seen_sigs.add(s)
        rep = b.minimise(r)
        reports.append(rep)
    if b.errors:
        code = 2
        for e in b.errors[:3]:
            print("HARNESS-ERROR:", e.get("harness_error"))
            if e.get("traceback"):
                print(e["traceback"])
    for k in b.known:
        hit = known_hit.get(k["signature"])
        extra = f" (hit in {hit['count']} runs, first seed {hit['first_seed']})" if hit else " (not hit in this batch)"
        print(f"KNOWN-FINDING: property={prop} {k['signature']} {k['description']}{extra}")
    for rep in reports:
        v = rep["violation"]
        print(f"violation: {v['oracle']}: {v['message']}")
        print(f"  seed={rep['run_seed']} ops {rep['minimised_from_steps']} -> {len(rep['ops'])} confirmed_fresh={rep['replay_confirmed_in_fresh_interpreter']}")
        print(f"VIOLATION property={prop} replay={rep['path']}")
        if code == 0:
            code = 1
    wall = time.time() - t0
    missing = 0 if (b.stop.is_set() or b.wall >= cap) else n - len(b.results)
    if missing and code == 0:
        print(f"HARNESS-ERROR: {missing} runs did not return")
        code = 2
    samples = []
    for r in b.results[:3]:
        if r.get("ops"):
            samples.append({"run_seed": r["rseed"], "config": {k: r["cfg"][k] for k in list(r["cfg"])[:12]} if r.get("cfg") else None, "ops": r["ops"][:25]})
    ev = {
        "property_id": prop,
        "tier": tier,
        "seed": verif_seed,
        "level": plan["level"],
        "coverage": {
            "evaluations": agg["runs"],
            "distinct_nontrivial": agg["distinct_nontrivial_traces"],
            "rule": plan["rule"],
            "samples": samples or [{"note": "no run returned"}],
            "exhaustive": False,
            **{k: v for k, v in agg.items() if k not in ("runs",)},
            "runs_per_hour": int(agg["runs"] / max(b.wall, 1e-6) * 3600),
            "seeds_per_hour": int(agg["runs"] / max(b.wall, 1e-6) * 3600),
            "simulated_time": "none: pyoak reads no clock; simulated steps are reported instead",
            "hashseed_pairs": R.HASHSEED_TABLE,
            "workers": b.nworkers,
            "real_components": plan.get("real", REAL),
            "stub_components": plan.get("stub", STUB),
            "pyoak_under_test": getattr(b, "pyoak_path", None),
            "known_findings_hit": {k: v["count"] for k, v in known_hit.items()},
            "unknown_violation_signatures": sorted(seen_sigs),
            "requested_runs": n,
            "stopped_early": b.stop.is_set() or b.wall >= cap,
            "zero_probes": [p for p in plan.get("expect_probes", []) if not agg["probes"].get(p)],
        },
        "assumptions": plan.get("assumptions", []),
        "wall_s": round(wall, 2),
        "violations": len(viol_unknown),
    }
    edir = os.environ.get("VERIF_EVIDENCE_DIR", os.path.join(VERIF, "evidence"))
    os.makedirs(edir, exist_ok=True)
    with open(os.path.join(edir, f"{prop}.json"), "w") as f:
        json.dump(ev, f, indent=1, default=str)
    zp = ev["coverage"]["zero_probes"]
    print(
        f"{prop} {tier}: runs={agg['runs']}/{n} steps={agg['simulated_steps']} states={agg['distinct_states']} "
        f"nontrivial_traces={agg['distinct_nontrivial_traces']} cut={sum(agg['cut_runs'].values())} "
        f"faults_fired={sum(agg['faults_fired'].values())} wall={wall:.1f}s exit={code}"
        + (f" WARNING zero probes: {zp}" if zp else "")
    )
    return code


REAL = [
    "all of pyoak from /repo/src (node, codegen, types, typing, serialize, origin, tree, visitor, match.*, legacy.*)",
    "mashumaro, orjson, msgpack, PyYAML, lark, weakref, the CPython collector (invoked by the scheduler)",
]
STUB = [
    "user-side code only: node classes of the universe, visitor classes, predicates, Tok property hooks, actor scripts (harness-provided, under simulator control)"
]
