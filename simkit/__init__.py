"""simkit -- a small deterministic-simulation kernel for the pyoak properties.

One integer (VERIF_SEED) decides every run seed; one run seed decides every choice of a run.
See /verif/DESIGN.md section 3.
"""
