"""ddmin over concrete op lists: drop chunks of steps, then single steps, while the same violation persists."""
from __future__ import annotations

from typing import Any, Callable

Ops = list[dict[str, Any]]


def ddmin(ops: Ops, still_fails: Callable[[Ops], bool], max_tests: int = 400) -> tuple[Ops, int]:
    tests = 0
    n = 2
    cur = list(ops)
    while len(cur) >= 2 and tests < max_tests:
        chunk = max(1, len(cur) // n)
        reduced = False
        i = 0
        while i < len(cur) and tests < max_tests:
            cand = cur[:i] + cur[i + chunk :]
            tests += 1
            if cand and still_fails(cand):
                cur = cand
                n = max(n - 1, 2)
                reduced = True
            else:
                i += chunk
        if not reduced:
            if chunk == 1:
                break
            n = min(len(cur), n * 2)
    return cur, tests


# ---- argument-level simplification: smaller specs inside the surviving ops ------------------------------------


def _specs(x: Any, path: tuple = ()) -> list[tuple]:
    """Paths of all tree specs ({"c":..,"ch":..}) nested anywhere in an op."""
    out: list[tuple] = []
    if isinstance(x, dict):
        if "c" in x and "ch" in x:
            out.append(path)
        for k, v in x.items():
            out.extend(_specs(v, path + (k,)))
    elif isinstance(x, list):
        for i, v in enumerate(x):
            out.extend(_specs(v, path + (i,)))
    return out


def _get(x: Any, path: tuple) -> Any:
    for k in path:
        x = x[k]
    return x


def _candidates(op: dict[str, Any]) -> list[dict[str, Any]]:
    import copy

    out: list[dict[str, Any]] = []
    for path in _specs(op):
        spec = _get(op, path)
        # drop tuple elements / optional children
        for f, v in spec.get("ch", {}).items():
            if isinstance(v, list) and v:
                for i in range(len(v)):
                    c = copy.deepcopy(op)
                    del _get(c, path)["ch"][f][i]
                    out.append(c)
            elif isinstance(v, dict):
                c = copy.deepcopy(op)
                _get(c, path)["ch"][f] = None
                out.append(c)
        # drop explicit property values (defaults apply)
        for pn in list(spec.get("p", {})):
            c = copy.deepcopy(op)
            del _get(c, path)["p"][pn]
            out.append(c)
        if spec.get("o") not in (None, "no"):
            c = copy.deepcopy(op)
            _get(c, path)["o"] = "no"
            out.append(c)
    return out


def simplify_args(ops: Ops, still_fails: Callable[[Ops], bool], max_tests: int = 250) -> tuple[Ops, int]:
    tests = 0
    cur = list(ops)
    progress = True
    while progress and tests < max_tests:
        progress = False
        for i in range(len(cur)):
            for cand_op in _candidates(cur[i]):
                if tests >= max_tests:
                    break
                cand = cur[:i] + [cand_op] + cur[i + 1 :]
                tests += 1
                if still_fails(cand):
                    cur = cand
                    progress = True
                    break
            if progress:
                break
    return cur, tests
