"""ddmin over concrete op lists: drop chunks of steps, then single steps, while the same violation persists."""
from __future__ import annotations

from typing import Any, Callable

Ops = list[dict[str, Any]]


def ddmin(ops: Ops, still_fails: Callable[[Ops], bool], max_tests: int = 400) -> tuple[Ops, int]:
    tests = 0
    n = 2
    cur = list(ops)
    while len(cur) >= 2 and tests < max_tests:
        chunk = max(1, len(cur) // n)
        reduced = False
        i = 0
        while i < len(cur) and tests < max_tests:
            cand = cur[:i] + cur[i + chunk :]
            tests += 1
            if cand and still_fails(cand):
                cur = cand
                n = max(n - 1, 2)
                reduced = True
            else:
                i += chunk
        if not reduced:
            if chunk == 1:
                break
            n = min(len(cur), n * 2)
    return cur, tests
