"""Core types shared by all machines: violations, fault plan, probes, run results."""
from __future__ import annotations

import gc
import hashlib
import json
from collections import Counter
from typing import Any


class Violation(Exception):
    """A property oracle failed.  `sig` identifies the *kind* of failure (used for known findings and
    for "same violation" while shrinking); `facts` carries the discriminating details."""

    def __init__(self, prop: str, oracle: str, sig: str, message: str, facts: dict[str, Any] | None = None):
        super().__init__(f"{prop} {oracle}: {message}")
        self.prop = prop
        self.oracle = oracle
        self.sig = sig
        self.message = message
        self.facts = facts or {}

    def as_dict(self) -> dict[str, Any]:
        return {
            "property": self.prop,
            "oracle": self.oracle,
            "sig": self.sig,
            "message": self.message,
            "facts": self.facts,
        }


class InjectedFault(Exception):
    """Raised by a cooperative fault point (user-side callback) when its armed k-th hit is reached."""

    def __init__(self, site: str):
        super().__init__(f"injected fault at {site}")
        self.site = site


class SkipOp(Exception):
    """Replay only: the op's referents do not exist (removed by shrinking) -- the op is skipped."""


class HarnessError(Exception):
    """The harness itself is wrong / inconsistent.  Never reported as a VIOLATION."""


class FaultPlan:
    """Cooperative fault points.  Only armed sites can fire; armed for the next op only."""

    def __init__(self) -> None:
        self.armed: dict[str, int] = {}
        self.hits: Counter[str] = Counter()
        self.fired: Counter[str] = Counter()
        self.armed_count: Counter[str] = Counter()
        self.counting = False  # when True, hits are counted (to learn m) but nothing fires
        self.actions: dict[str, tuple[int, Any]] = {}

    def arm(self, site: str, k: int) -> None:
        self.armed[site] = k
        self.armed_count[site] += 1

    def arm_action(self, site: str, k: int, fn: Any) -> None:
        """Instead of failing, the k-th hit of `site` RUNS fn (a re-entrant use of the library from inside the
        user callback that hosts the fault point) and then carries on."""
        self.actions[site] = (k, fn)
        self.armed_count[site + ":action"] += 1

    def disarm(self) -> None:
        self.armed.clear()
        self.actions.clear()

    def reset_hits(self) -> None:
        self.hits.clear()

    def hit(self, site: str) -> None:
        self.hits[site] += 1
        act = self.actions.get(site)
        if act is not None:
            k, fn = act
            if k <= 1:
                del self.actions[site]
                self.fired[site + ":action"] += 1
                fn()
            else:
                self.actions[site] = (k - 1, fn)
        k = self.armed.get(site)
        if k is None:
            return
        k -= 1
        if k <= 0:
            del self.armed[site]
            self.fired[site] += 1
            raise InjectedFault(site)
        self.armed[site] = k


FAULTS = FaultPlan()  # process-global: user-side callbacks of the universe consult it


def fp(*parts: Any) -> str:
    """Short stable fingerprint of JSON-able parts."""
    h = hashlib.blake2b(json.dumps(parts, sort_keys=True, default=str).encode("utf-8"), digest_size=6)
    return h.hexdigest()


class RunStats:
    def __init__(self) -> None:
        self.opkinds: Counter[str] = Counter()
        self.outcomes: Counter[str] = Counter()
        self.probes: Counter[str] = Counter()
        self.states: set[str] = set()
        self.trigrams: set[str] = set()
        self.abstract: list[str] = []
        self.steps = 0
        self.skipped = 0
        self.checks = 0

    def note_step(self, actor: str, kind: str, outcome: str) -> None:
        self.steps += 1
        self.opkinds[kind] += 1
        self.outcomes[outcome] += 1
        self.abstract.append(f"{actor}:{kind}:{outcome}")
        if len(self.abstract) >= 3:
            self.trigrams.add(fp(self.abstract[-3:]))

    def as_dict(self) -> dict[str, Any]:
        return {
            "steps": self.steps,
            "skipped": self.skipped,
            "checks": self.checks,
            "opkinds": dict(self.opkinds),
            "outcomes": dict(self.outcomes),
            "probes": dict(self.probes),
            "states": sorted(self.states),
            "trigrams": sorted(self.trigrams),
            "trace_digest": fp(self.abstract),
        }


def collect() -> None:
    """The GC seam: the collector only runs when the simulator says so."""
    gc.collect()


def freeze_gc() -> None:
    gc.disable()
    gc.collect()
    gc.freeze()
