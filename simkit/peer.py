"""The peer: a second real interpreter (other PYTHONHASHSEED, universe with permuted field declaration order,
pristine registry) that plays "another process" for S3/S4.  Synchronous JSON lines: one request, one reply.
Every request is handled in a forked child of the peer, so each one sees a pristine process image.
"""
from __future__ import annotations

import json
import os
import subprocess
import sys

VERIF = os.path.dirname(os.path.dirname(os.path.abspath(__file__)))


class PeerClient:
    def __init__(self, hashseed: int):
        self.hashseed = hashseed
        self.p = None
        self.start()

    def start(self) -> None:
        env = dict(os.environ)
        env["PYTHONHASHSEED"] = str(self.hashseed)
        env["VERIF_UNIVERSE_PERMUTED"] = "1"
        env["PYTHONPATH"] = VERIF
        env.pop("VERIF_WITH_PEER", None)
        self.p = subprocess.Popen([sys.executable, "-B", "-m", "simkit.peer"], stdin=subprocess.PIPE, stdout=subprocess.PIPE, cwd=VERIF, env=env, text=True, bufsize=1)
        line = self.p.stdout.readline()
        if not line:
            raise RuntimeError("peer failed to start")

    def request(self, req: dict) -> dict:
        self.p.stdin.write(json.dumps(req) + "\n")
        self.p.stdin.flush()
        line = self.p.stdout.readline()
        if not line:
            raise RuntimeError("peer died")
        return json.loads(line)

    def restart(self) -> None:
        try:
            self.p.kill()
            self.p.wait()
        except Exception:  # noqa: BLE001
            pass
        self.start()

    def close(self) -> None:
        try:
            self.p.stdin.close()
            self.p.wait(timeout=5)
        except Exception:  # noqa: BLE001
            self.p.kill()


def _handle(req: dict) -> dict:
    import pyoak.config as pcfg
    from machines import regworld as RW
    from pyoak.node import ASTNode
    from pyoak.origin import Source

    pcfg.ID_DIGEST_SIZE = req.get("digest", 8)
    pcfg.RUNTIME_TYPE_CHECK = bool(req.get("rtc", False))
    if req["op"] == "build":
        if '"Late"' in json.dumps(req["spec"]):
            from universe import v2 as U

            if "Late" not in U.CLS:
                U.define_late()  # the class the writer defined in the middle of its run
        w = RW.World({"digest": req.get("digest", 8), "rtc": False, "gc": "exact"}, "peer")
        o = w.build(req["spec"])
        return {"cids": [x.content_id for x in RW.walk(o)]}
    if req["op"] == "roundtrip":
        fmt, opts = req["fmt"], req.get("opts")
        # a reader process starts with an empty source table
        Source.clear_registry()
        if "idx" in (opts or ""):
            # the documented protocol: sources are shipped separately and loaded into the empty table
            Source.load_serialized_sources(req["sources"])
        data = RW.payload_from_json(req["payload"], fmt)
        try:
            res = RW.deserialize(ASTNode, data, fmt, RW.ser_opts(opts))
        except Exception as e:  # noqa: BLE001
            return {"error": f"{type(e).__name__}: {e}"}
        snap = RW.snap_tree(res, {}, [0], with_ref=False)
        registered = [ASTNode.get_any(x.id) is x for x in RW.walk(res)]
        return {"snap": snap, "registered": registered}
    if req["op"] == "source_cycles":
        return _source_cycles(req)
    return {"error": "bad request"}


def _source_cycles(req: dict) -> dict:
    """A consumer process that handles several batches, each written by a producer with its own source table: for
    every batch the documented cycle -- clear_registry, load_serialized_sources, read the index-based document."""
    from pyoak.node import ASTNode
    from pyoak.origin import SOURCE_OPTIMIZED_SERIALIZATION_KEY, CodeOrigin, MemoryTextSource, Source, get_code_range
    from universe import v2 as U

    idx = {SOURCE_OPTIMIZED_SERIALIZATION_KEY: True}
    if req.get("sub_clear"):
        # some earlier code cleared "the registry" through a subclass: in pyoak that call is inert
        MemoryTextSource.clear_registry()
    docs = []
    for b in req["batches"]:  # the producers, one after the other, each starting from an empty table
        Source.clear_registry()
        srcs = {k: MemoryTextSource(U.SRC[k].get_raw(), source_uri=U.SRC[k].source_uri) for k in b["src"]}
        leaves = tuple(U.CLS["LeafA"](a=f"{k}{i}", origin=CodeOrigin(srcs[k], get_code_range(i, 1, i, i + 1, 1, i + 1))) for i, k in enumerate(b["leaves"]))
        tree = U.CLS["Seq"](items=leaves, origin=CodeOrigin(srcs[b["leaves"][0]], get_code_range(0, 1, 0, 3, 1, 3)))
        try:
            payload = tree.to_json(serialization_options=idx) if b.get("idx", True) else tree.to_json()
        except Exception as e:  # noqa: BLE001
            return {"error": f"writer {type(e).__name__}: {e}"}
        docs.append((payload, Source.all_as_dict(), [x.id for x in tree.items]))
        tree.detach()
        del tree, leaves
    out = []
    for (payload, sources, _ids), b in zip(docs, req["batches"]):  # the consumer
        try:
            Source.clear_registry()
            Source.load_serialized_sources(sources)
            t = ASTNode.from_json(payload, serialization_options=idx if b.get("idx", True) else None)
        except Exception as e:  # noqa: BLE001
            return {"error": f"reader {type(e).__name__}: {e}"}
        out.append([[x.a, x.origin.source.source_uri] for x in t.items])
        t.detach()
        del t
    return {"seen": out}


def main() -> None:
    repo_src = os.environ.get("VERIF_REPO_SRC", "/repo/src")
    sys.path.insert(0, VERIF)
    sys.path.insert(0, repo_src)
    proto = os.fdopen(os.dup(1), "w", buffering=1)
    os.dup2(2, 1)
    from machines import regworld  # noqa: F401  (imports pyoak + the permuted universe)
    from simkit.core import freeze_gc

    freeze_gc()
    proto.write(json.dumps({"ready": True}) + "\n")
    for line in sys.stdin:
        line = line.strip()
        if not line:
            continue
        req = json.loads(line)
        rfd, wfd = os.pipe()
        pid = os.fork()
        if pid == 0:
            try:
                os.close(rfd)
                try:
                    rep = _handle(req)
                except BaseException as e:  # noqa: BLE001
                    rep = {"error": f"peer-harness {type(e).__name__}: {e}"}
                b = json.dumps(rep, default=str).encode("utf-8")
                off = 0
                while off < len(b):
                    off += os.write(wfd, b[off : off + 65536])
            finally:
                os._exit(0)
        os.close(wfd)
        chunks = []
        while True:
            c = os.read(rfd, 1 << 16)
            if not c:
                break
            chunks.append(c)
        os.close(rfd)
        os.waitpid(pid, 0)
        proto.write((b"".join(chunks).decode("utf-8") or json.dumps({"error": "peer child died"})) + "\n")


if __name__ == "__main__":
    main()
