"""Debug helper: run one job in-process (no fork), with a faulthandler watchdog.
   tools/run1.py <machine> <prop> <index|seed=N> [tier]"""
import faulthandler, json, os, sys
sys.path.insert(0, os.path.dirname(os.path.dirname(os.path.abspath(__file__))))
sys.path.insert(0, os.environ.get("VERIF_REPO_SRC", "/repo/src"))
import importlib
from simkit import rng as R
machine, prop, which = sys.argv[1:4]
tier = sys.argv[4] if len(sys.argv) > 4 else "quick"
M = importlib.import_module("machines." + machine)
seed = int(which[5:]) if which.startswith("seed=") else R.run_seed(int(os.environ.get("VERIF_SEED", R.DEFAULT_VERIF_SEED)), prop, int(which))
faulthandler.dump_traceback_later(20, exit=True)
idx = int(which) if not which.startswith("seed=") else 1
cfg = M.make_config(seed, prop, tier, (idx % 3) != 0)
res = M.run(cfg, prop, rseed=seed)
print(json.dumps({k: res[k] for k in ("violation", "cut", "steps", "probes")}, default=str)[:3000])
for o in res["ops"][-12:]:
    print("  ", json.dumps(o)[:400])
