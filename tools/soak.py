"""Soak: run the quick (or thorough) tier of the given properties under many VERIF_SEED values; any non-zero
exit is reported.  Evidence / replays go to a scratch directory so committed evidence is not touched.

  tools/soak.py --seeds 1-20 --tier quick C01 C03 ...
"""
import argparse
import os
import subprocess
import sys
import time

VERIF = os.path.dirname(os.path.dirname(os.path.abspath(__file__)))
ap = argparse.ArgumentParser()
ap.add_argument("--seeds", default="1-10")
ap.add_argument("--tier", default="quick")
ap.add_argument("--out", default="/tmp/soak")
ap.add_argument("props", nargs="+")
a = ap.parse_args()
lo, hi = a.seeds.split("-")
bad = 0
os.makedirs(a.out, exist_ok=True)
for seed in range(int(lo), int(hi) + 1):
    for p in a.props:
        env = dict(os.environ, VERIF_SEED=str(seed), VERIF_EVIDENCE_DIR=a.out, VERIF_REPLAY_DIR=a.out)
        t0 = time.time()
        r = subprocess.run([sys.executable, "-B", "-m", "checks.run", "--property", p, "--tier", a.tier], cwd=VERIF, env=env, capture_output=True, text=True)
        last = [l for l in r.stdout.splitlines() if l.startswith(p + " ")]
        print(f"seed={seed} {p} exit={r.returncode} {time.time()-t0:.0f}s {last[-1] if last else ''}", flush=True)
        if r.returncode != 0:
            bad += 1
            for l in r.stdout.splitlines():
                if l.startswith(("violation", "VIOLATION", "HARNESS")):
                    print("    " + l[:400], flush=True)
print("SOAK DONE bad =", bad)
