"""Regenerate /verif/MANIFEST.json from checks/plans.py (claimed) + the not-applicable table."""
import json
import os
import sys

sys.path.insert(0, os.path.dirname(os.path.dirname(os.path.abspath(__file__))))
from checks.plans import PLANS  # noqa: E402

NA = {
    "C02": "pure function of two trees (==, !=, hash): no schedule, fault, clock or interleaving in it; its only history-flavoured clause (hash constant for the node's lifetime) is checked inside C10's frame condition",
    "C05": "traversal order / prune / filter is a pure function of (tree, predicates); nothing depends on process state, order of calls or faults -- input generation, not simulation",
    "C06": "Tree is built eagerly from one dfs and its queries are pure functions of (tree, node); the stated precondition removes the only history sensitivity",
    "C07": "findall/match agreement is a pure function of (xpath text, tree)",
    "C11": "annotation classification is a function of the class definition text; generating type grammars is property-based testing / bounded enumeration, a different technique",
    "C13": "is_instance / construction under a switch is a pure function of (annotation, value, switch)",
    "C15": "pure value algebra over code points, ranges and origins; file-backed get_raw (the library's only I/O) is outside the quantifier",
    "C17": "totality over all strings is grammar fuzzing of pure entry points; its single stateful clause (recompiling a text, cached or not) is exercised but not claimed inside the C08 machine",
    "C20": "legacy traversal / xpath match / calculate_xpath are pure functions of an attached tree and a path",
}
ALL = [f"C{i:02d}" for i in range(1, 21)]


def main() -> None:
    checks = []
    for pid in ALL:
        p = PLANS.get(pid)
        if not p or not p.get("claimed", True):
            continue
        checks.append(
            {
                "property_id": pid,
                "quick_cmd": f"timeout 900 /venv/bin/python -B -m checks.run --property {pid} --tier quick",
                "thorough_cmd": f"timeout 7200 /venv/bin/python -B -m checks.run --property {pid} --tier thorough",
                "evidence_file": f"/verif/evidence/{pid}.json",
                "replay_cmd_template": "/venv/bin/python -B -m checks.run --replay {path}",
                "engine": "simkit",
                "level_claimed": {"category": p["level"], "text": p["level_text"], "design_ref": p.get("design_ref", "DESIGN.md section 5")},
                "level_note": p["level_note"],
                "technique": p["technique"],
            }
        )
    na = []
    for pid in ALL:
        if any(c["property_id"] == pid for c in checks):
            continue
        na.append({"property_id": pid, "reason": NA.get(pid, "simulation target (DESIGN.md section 5); its check is not (yet) sound/complete enough to be claimed")})
    m = {
        "version": 1,
        "setup_cmd": "/venv/bin/python -B -m checks.selfcheck",
        "hooks": {
            "guard": "PYOAK_VERIF",
            "enable": "no hooks exist in /repo: every seam (collector, hash seed, user callbacks, payload bytes, public config) is reachable from outside; checks import /repo/src directly (VERIF_REPO_SRC overrides the path for mutant self-tests)",
            "baseline_off_cmd": "cd /repo && /venv/bin/python -m pytest -ra -q -p no:cacheprovider --timeout=900 --continue-on-collection-errors",
            "source_commits": [],
            "add_only": True,
        },
        "engines": [
            {
                "name": "simkit",
                "path": "/verif/simkit",
                "serves_properties": [c["property_id"] for c in checks],
                "kind_free_text": "seeded deterministic simulator written for this task: actors sharing one interpreter's pyoak state, scheduler-owned GC, forked pristine process image per run, per-run PYTHONHASHSEED and a peer interpreter, cooperative fault points in user callbacks, concrete op traces as replay files, ddmin shrinking",
            }
        ],
        "checks": checks,
        "not_applicable": na,
        "notes": "Technique: deterministic simulation with fault injection (DESIGN.md). pyoak has no threads, clock, network or disk I/O in scope; the simulated nondeterminism is the order of API calls by several actors over process-global state, reference lifetimes + GC, hash seed / process boundary, and exceptions thrown from user callbacks / malformed payloads at enumerated points.",
    }
    json.dump(m, open(os.path.join(os.path.dirname(os.path.dirname(os.path.abspath(__file__))), "MANIFEST.json"), "w"), indent=1)
    print("claimed:", [c["property_id"] for c in checks])


main()
