"""Prepare a seeding round: one prompt file and one scratch worktree per claimed property (sub-agents get ONLY the
property text, the list of changes already taken, and their own worktree -- nothing from /verif).

  python tools/mk_seed_prompts.py            -> /tmp/agent-prompt-<prop>.txt, /tmp/agent-<prop>, /tmp/agent-<prop>-out
Afterwards: tools/seeded.py import /tmp/agent-<prop>-out/variant<k> <id> <prop> "<needs>"; tools/seeded.py verify <id>;
selftest/sensitivity.py --only <id> --skip-tests; git -C /repo worktree remove --force /tmp/agent-<prop>.
"""
import glob
import json
import os
import subprocess

V = os.path.dirname(os.path.dirname(os.path.abspath(__file__)))
props = {}
for l in open(f"{V}/properties.jsonl"):
    d = json.loads(l)
    props[d["id"]] = d
tmpl = open(f"{V}/seeded/PROMPT.tmpl").read()
claimed = sorted({c["property_id"] for c in json.load(open(f"{V}/MANIFEST.json"))["checks"]})
for pid in claimed:
    taken = []
    for m in sorted(glob.glob(f"{V}/seeded/{pid}-*/meta.json")):
        j = json.load(open(m))
        taken.append(f"- {j['id']}: needs {j['needs_to_manifest']}")
    d = props[pid]
    text = json.dumps({k: d[k] for k in ("id", "title", "statement", "quantifier", "why_tests_cant", "anchors")}, indent=1)
    p = tmpl.replace("@@PROP@@", text).replace("@@TAKEN@@", "\n".join(taken)).replace("@@ID@@", pid)
    open(f"/tmp/agent-prompt-{pid}.txt", "w").write(p)
    wt = f"/tmp/agent-{pid}"
    subprocess.run(f"git -C /repo worktree remove --force {wt}", shell=True, capture_output=True)
    r = subprocess.run(f"git -C /repo worktree add -q --detach {wt} HEAD", shell=True, capture_output=True, text=True)
    os.makedirs(f"/tmp/agent-{pid}-out", exist_ok=True)
    print(pid, len(taken), "taken; worktree", "ok" if r.returncode == 0 else r.stderr[:100])
