import json, os
V = os.path.dirname(os.path.dirname(os.path.abspath(__file__)))
r = json.load(open(f"{V}/selftest/sensitivity.json"))
print("| change | kind | property | suite with change | quick check | s | first violation |")
print("|---|---|---|---|---|---|---|")
for k in sorted(r, key=lambda k: (r[k]["property"], r[k]["kind"], k)):
    v = r[k]
    if not v.get("applies", True):
        print(f"| {k} | {v['kind']} | {v['property']} | patch does not apply | - | - | - |"); continue
    fv = (v.get("first_violation") or "").replace("violation: ", "").replace("|", "/").replace("\n", " ")[:90]
    print(f"| {k} | {v['kind']} | {v['property']} | {v['tests'].split(',')[0] if 'failed' not in v['tests'] else v['tests'].split(' in ')[0]} | {'DETECTED' if v['detected'] else 'missed'} | {v['seconds_to_verdict']} | {fv} |")
