"""Manage seeded changes (/verif/seeded/<id>/): import from a sub-agent's output, verify, run checks against them.

  tools/seeded.py import <src_dir> <id> <prop> "<needs>"
  tools/seeded.py verify <id>
  tools/seeded.py detect <id> [prop ...]      (quick tier of the broken property, or the given ones)
All work happens in scratch worktrees under /tmp that are removed afterwards; /repo is never modified.
"""
import json
import os
import shutil
import subprocess
import sys
import time

VERIF = os.path.dirname(os.path.dirname(os.path.abspath(__file__)))
PY = "/venv/bin/python"


def sh(cmd, **kw):
    return subprocess.run(cmd, shell=True, capture_output=True, text=True, **kw)


def meta_path(i):
    return os.path.join(VERIF, "seeded", i, "meta.json")


def load(i):
    return json.load(open(meta_path(i)))


def save(i, m):
    json.dump(m, open(meta_path(i), "w"), indent=1)


def worktree(i, patched):
    wt = f"/tmp/seedwt-{i}-{os.getpid()}"
    r = sh(f"git -C /repo worktree add -q --detach {wt} HEAD")
    assert r.returncode == 0, r.stderr
    if patched:
        r = sh(f"git -C {wt} apply {VERIF}/seeded/{i}/patch.diff")
        if r.returncode != 0:
            r = sh(f"git -C {wt} apply --3way {VERIF}/seeded/{i}/patch.diff")
        assert r.returncode == 0, "patch does not apply: " + r.stderr
    return wt


def rm_worktree(wt):
    sh(f"git -C /repo worktree remove --force {wt}")
    shutil.rmtree(wt, ignore_errors=True)


def cmd_import(src, i, prop, needs):
    d = os.path.join(VERIF, "seeded", i)
    os.makedirs(d, exist_ok=True)
    shutil.copy(os.path.join(src, "patch.diff"), d)
    shutil.copy(os.path.join(src, "demo.py"), d)
    if os.path.exists(os.path.join(src, "notes.md")):
        shutil.copy(os.path.join(src, "notes.md"), d)
    save(i, {"id": i, "breaks_property": prop, "needs_to_manifest": needs, "source": "independent sub-agent given only the property text and a scratch worktree"})


def cmd_verify(i):
    m = load(i)
    wt = worktree(i, False)
    try:
        env = dict(os.environ, PYTHONPATH=f"{wt}/src")
        r0 = sh(f"{PY} -B {VERIF}/seeded/{i}/demo.py", env=env, cwd="/tmp")
        r = sh(f"git -C {wt} apply {VERIF}/seeded/{i}/patch.diff")
        assert r.returncode == 0, r.stderr
        t = sh(f"cd {wt} && {PY} -m pytest -q -p no:cacheprovider 2>&1 | tail -1", env=env)
        r1 = sh(f"{PY} -B {VERIF}/seeded/{i}/demo.py", env=env, cwd="/tmp")
        m["verified"] = {
            "demo_exit_without_change": r0.returncode,
            "demo_exit_with_change": r1.returncode,
            "test_suite_with_change": t.stdout.strip(),
            "base_commit": sh("git -C /repo rev-parse --short HEAD").stdout.strip(),
            "ran": [f"PYTHONPATH=<scratch>/src {PY} demo.py (before/after git apply patch.diff)", f"cd <scratch> && PYTHONPATH=<scratch>/src {PY} -m pytest -q -p no:cacheprovider"],
            "ok": r0.returncode == 0 and r1.returncode != 0 and "244 passed" in t.stdout,
        }
        print(i, json.dumps(m["verified"]))
        if r1.returncode == 0 or r0.returncode != 0:
            print(r0.stdout[-500:], r0.stderr[-500:], r1.stdout[-500:], r1.stderr[-500:])
    finally:
        rm_worktree(wt)
    save(i, m)


def cmd_detect(i, props):
    m = load(i)
    props = props or [m["breaks_property"]]
    wt = worktree(i, True)
    try:
        for p in props:
            ed = f"/tmp/seed-ev-{i}-{os.getpid()}"
            env = dict(os.environ, VERIF_REPO_SRC=f"{wt}/src", VERIF_EVIDENCE_DIR=ed, VERIF_REPLAY_DIR=ed)
            t0 = time.time()
            r = sh(f"cd {VERIF} && timeout 1200 {PY} -B -m checks.run --property {p} --tier quick", env=env)
            dt = time.time() - t0
            lines = [l for l in r.stdout.splitlines() if l.startswith(("violation:", "VIOLATION", "HARNESS", p + " "))]
            m.setdefault("detection", {})[p] = {"exit": r.returncode, "wall_s": round(dt, 1), "output": lines[:8], "verif_commit": sh(f"git -C {VERIF} rev-parse --short HEAD").stdout.strip()}
            print(i, p, "exit", r.returncode, f"{dt:.1f}s")
            for l in lines[:6]:
                print("   ", l[:300])
            shutil.rmtree(ed, ignore_errors=True)
    finally:
        rm_worktree(wt)
    save(i, m)


if __name__ == "__main__":
    c = sys.argv[1]
    if c == "import":
        cmd_import(*sys.argv[2:6])
    elif c == "verify":
        cmd_verify(sys.argv[2])
    elif c == "detect":
        cmd_detect(sys.argv[2], sys.argv[3:])
