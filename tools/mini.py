"""tools/mini.py <machine> <prop> <seed> [faults 0/1]: run one seed in a worker, minimise its violation, print the trace."""
import json, os, sys
sys.path.insert(0, os.path.dirname(os.path.dirname(os.path.abspath(__file__))))
from simkit import runner, rng as R
machine, prop, seed = sys.argv[1], sys.argv[2], int(sys.argv[3])
faults = (sys.argv[4] == "1") if len(sys.argv) > 4 else True
b = runner.Batch(prop, machine, "quick", 0, 0, 60)
g = R.hashseed_group(seed)
hs, phs = R.HASHSEED_TABLE[g]
w = runner.Worker(machine, hs, None); w.wait_ready()
res = w.call({"jid": 0, "rseed": seed, "prop": prop, "tier": os.environ.get("VERIF_TIER", "quick"), "faults": faults, "want_ops": True})
w.close()
if "harness_error" in res:
    print(res); sys.exit(2)
res["group"] = g
print("violation:", res.get("violation"), "cut:", res.get("cut"))
if res.get("violation"):
    os.environ.setdefault("VERIF_REPLAY_DIR", "/tmp/mini")
    rep = b.minimise(res)
    print(rep["violation"]["message"])
    for o in rep["ops"]:
        print("  ", json.dumps({k: v for k, v in o.items() if k != "actor"})[:1200])
