"""Reach measurement: which lines of function bodies in src/pyoak did the runs of a property's quick tier execute?
(sys.monitoring LINE events inside the forked run children; generated accessor code and import-time lines are not
counted.)  Prints, per anchored file, executed / executable lines and the uncovered line ranges.

  python tools/reach.py C09 [--runs 400] [--files node.py,visitor.py]
"""
import argparse
import glob
import os
import shutil
import subprocess
import sys
import types

ap = argparse.ArgumentParser()
ap.add_argument("prop")
ap.add_argument("--runs", default="400")
ap.add_argument("--files", default="")
a = ap.parse_args()
V = os.path.dirname(os.path.dirname(os.path.abspath(__file__)))
SRC = os.environ.get("VERIF_REPO_SRC", "/repo/src")
d = f"/tmp/reach-{os.getpid()}"
os.makedirs(d, exist_ok=True)
env = dict(os.environ, VERIF_COV_DIR=d, VERIF_RUNS=a.runs, VERIF_EVIDENCE_DIR=d, VERIF_REPLAY_DIR=d)
r = subprocess.run([sys.executable, "-B", "-m", "checks.run", "--property", a.prop, "--tier", "quick"], cwd=V, env=env, capture_output=True, text=True)
print(r.stdout.strip().splitlines()[-1])
hit: dict[str, set[int]] = {}
for f in glob.glob(d + "/*.cov"):
    for l in open(f).read().split("\n"):
        if l:
            fn, n = l.rsplit(":", 1)
            hit.setdefault(fn, set()).add(int(n))
shutil.rmtree(d)


def body_lines(path: str) -> dict[int, str]:
    """executable lines inside function bodies -> qualified function name"""
    out: dict[int, str] = {}
    code = compile(open(path).read(), path, "exec")

    def rec(c: types.CodeType, inside: bool) -> None:
        if inside:
            for _s, _e, ln in c.co_lines():
                if ln is not None and ln != c.co_firstlineno:
                    out.setdefault(ln, c.co_qualname)
        for k in c.co_consts:
            if isinstance(k, types.CodeType):
                rec(k, inside or not k.co_name.startswith("<") or k.co_name in ("<lambda>", "<listcomp>", "<genexpr>") and inside)

    for k in code.co_consts:
        if isinstance(k, types.CodeType):
            rec(k, False if k.co_flags & 0 else _is_func(k))
    return out


def _is_func(c: types.CodeType) -> bool:
    # class bodies run at import; their nested functions are handled by rec()
    return not (c.co_name[:1].isupper() and "__module__" in c.co_names and "__qualname__" in c.co_names)


want = [x for x in a.files.split(",") if x]
for path in sorted(glob.glob(SRC + "/pyoak/**/*.py", recursive=True)):
    rel = path[len(SRC) + len("/pyoak/") :]
    if want and rel not in want:
        continue
    ex = body_lines(path)
    if not ex:
        continue
    h = hit.get(rel, set())
    miss = sorted(set(ex) - h)
    if not h and not want:
        continue
    print(f"\n{rel}: {len(set(ex) & h)}/{len(ex)} body lines executed")
    # group misses by function
    byf: dict[str, list[int]] = {}
    for ln in miss:
        byf.setdefault(ex[ln], []).append(ln)
    for fn, lns in byf.items():
        print(f"   {fn}: {lns if len(lns) < 14 else str(lns[:14]) + '...'}")
