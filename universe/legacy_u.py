"""Node model for the legacy (parent-aware, AwareASTNode) worlds: leaf and inner nodes with tuple, list, optional,
required and type-restricted child fields.  Harness-side field knowledge comes from TABLE."""
from __future__ import annotations

import warnings
from dataclasses import dataclass, field
from typing import Any

warnings.simplefilter("ignore", DeprecationWarning)

from pyoak.legacy.node import AwareASTNode  # noqa: E402

from universe.v2 import ORIGINS  # noqa: E402,F401  (same origins as the v2 universe)


@dataclass
class LNode(AwareASTNode):
    pass


@dataclass
class LLeaf(LNode):
    v: str = "x"
    note: str = field(default="", compare=False)


@dataclass
class LLeafB(LNode):
    v: str = "x"


@dataclass
class LInner(LNode):
    one: LNode | None = None
    items: tuple[LNode, ...] = ()
    lst: list[LNode] = field(default_factory=list)
    only_leaf: LLeaf | None = None
    tag: str = ""


@dataclass
class LReq(LNode):
    req: LNode = None  # type: ignore[assignment]  # required (non-optional) child: replace_with(None) must be refused
    tag: str = ""


@dataclass
class LBlock(LNode):
    """a container-like node: falsy in a boolean context while it has no kids"""

    kids: tuple[LNode, ...] = ()

    def __len__(self) -> int:
        return len(self.kids)


@dataclass
class LAny(LNode):
    """holds a child in a field whose ANNOTATION is not a node type (the legacy package finds children at run time)"""

    payload: Any = None
    items: tuple[LNode, ...] = ()
    tag: str = ""


CLS = {c.__name__: c for c in (LNode, LLeaf, LLeafB, LInner, LReq, LBlock, LAny)}

# (name, kind, allowed classes)  kind: single | tuple | list
CHILD_FIELDS: dict[str, list[tuple[str, str, tuple[str, ...]]]] = {
    "LNode": [],
    "LLeaf": [],
    "LLeafB": [],
    "LInner": [("one", "single", ("any",)), ("items", "tuple", ("any",)), ("lst", "list", ("any",)), ("only_leaf", "single", ("LLeaf",))],
    "LReq": [("req", "single", ("any",))],
    "LBlock": [("kids", "tuple", ("any",))],
    "LAny": [("payload", "single", ("any",)), ("items", "tuple", ("any",))],
}
PROP_FIELDS: dict[str, list[tuple[str, bool]]] = {  # (name, compare)
    "LNode": [],
    "LLeaf": [("v", True), ("note", False)],
    "LLeafB": [("v", True)],
    "LInner": [("tag", True)],
    "LReq": [("tag", True)],
    "LBlock": [],
    "LAny": [("tag", True)],
}
OPTIONAL = {("LInner", "one"), ("LInner", "only_leaf"), ("LAny", "payload")}
