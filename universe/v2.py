"""The simulated application's node model for the v2 (ASTNode) worlds.

User-side code: node classes, a SerializableType property whose hooks are cooperative fault points,
origins over three explicit-uri sources, value pools biased to collisions, and JSON-able *specs* from
which trees are built through the public constructors.

The class definitions are rendered from TABLE to Python source and exec'd into a real module; with
VERIF_UNIVERSE_PERMUTED=1 (the peer interpreter) every class declares its own fields in reverse order.
The harness' knowledge of which field is a child / property / comparable comes from TABLE, never from
pyoak's own classification.
"""
from __future__ import annotations

import enum
import os
import sys
import types
from dataclasses import dataclass
from typing import Any

from simkit.core import FAULTS

PERMUTED = os.environ.get("VERIF_UNIVERSE_PERMUTED", "0") == "1"


@dataclass(frozen=True)
class F:
    name: str
    ann: str
    kind: str  # prop | child | opt | tuple | fixed
    vt: str = ""  # value type tag for props / allowed child classes tag for children
    default: str | None = None  # source text of the default (None: required)
    compare: bool = True
    init: bool = True


# (class name, base, slots, extra body, own fields)
TABLE: list[tuple[str, str, bool, str, list[F]]] = [
    ("Expr", "ASTNode", False, "", []),
    ("LeafA", "Expr", False, "", [F("a", "str", "prop", "str"), F("b", "str", "prop", "str", '""')]),
    ("LeafB", "Expr", True, "", [F("a", "str", "prop", "str"), F("b", "str", "prop", "str", '""')]),
    ("LeafA2", "LeafA", False, "", [F("c", "int", "prop", "int", "0")]),
    (
        "Meta",
        "Expr",
        False,
        "",
        [
            F("text", "str", "prop", "str"),
            F("note", "str", "prop", "str", 'field(default="", compare=False)', compare=False),
            F("tagged", "str", "prop", "str", 'field(default="", compare=False, hash=True)', compare=False),
            F("hf", "str", "prop", "str", 'field(default="", hash=False)'),  # out of __hash__ by declaration, still comparable content
            F("seq", "int", "prop", "int", "field(init=False, default=7)", init=False),
            F("hid", "int", "prop", "int", "field(init=False, compare=False, default=9)", compare=False, init=False),
            F("kw", "int", "prop", "int", "1"),
        ],
    ),
    (
        "Vals",
        "Expr",
        False,
        "    KIND: ClassVar[str] = 'vals'  # class-level constants: not fields\n    PROTO: ClassVar[Expr | None] = None\n",
        [
            F("s", "str", "prop", "str"),
            F("i", "int", "prop", "int", "0"),
            F("f", "float", "prop", "float", "0.5"),
            F("flag", "bool", "prop", "bool", "True"),
            F("opt", "int | None", "prop", "optint", "None"),
            F("col", "Color", "prop", "color", "Color.RED"),
            F("p", "Path", "prop", "path", 'Path("a/b")'),
            F("lit", 'Literal["x", "y"]', "prop", "lit", '"x"'),
            F("ti", "tuple[int, ...]", "prop", "tint", "()"),
            F("tsi", "tuple[str, int]", "prop", "tsi", '("k", 1)'),
            F("ts", "tuple[str, ...]", "prop", "tstr", "()"),
            F("uid", "UserId", "prop", "str", 'UserId("u")'),
            F("g", "float", "prop", "float", "0.0"),
            F("op", "Op", "prop", "op", "Op.ADD"),
        ],
    ),
    # field names that differ only in case (sort order must not depend on declaration order)
    ("CaseMix", "Expr", False, "", [F("k", "str", "prop", "str", '""'), F("K", "str", "prop", "str", '""'), F("c", "Expr | None", "opt", "any", "None"), F("C", "Expr | None", "opt", "any", "None")]),
    ("FS", "Expr", False, "", [F("s", "frozenset[str]", "prop", "fs")]),
    ("FS2", "Expr", False, "", [F("ss", "frozenset[frozenset[int]]", "prop", "fs2")]),
    (
        "Pair",
        "Expr",
        False,
        "",
        [
            F("left", "Expr | None", "opt", "any", "None"),
            F("lhs", "Expr | None", "opt", "any", "field(default=None, repr=False)"),
            F("right", "Expr | None", "opt", "any", "None"),
        ],
    ),
    ("Seq", "Expr", False, "", [F("items", "tuple[Expr, ...]", "tuple", "any", "()")]),
    ("Fixed", "Expr", True, "", [F("pair", "tuple[LeafA, LeafB]", "fixed", "ab")]),
    (
        "Mixed",
        "Expr",
        False,
        "",
        [
            F("items", "tuple[Expr, ...]", "tuple", "any", "()"),
            F("one", "Expr", "child", "any"),
            F("head", "LeafA | LeafB | None", "opt", "leaf", "None"),
            F("text", "str", "prop", "str", '""'),
        ],
    ),
    (
        "Falsy",
        "Seq",
        False,
        "    def __len__(self) -> int:\n        return len(self.items)\n",
        [],
    ),
    ("SeqPlus", "Seq", False, "", [F("extra", "Expr | None", "opt", "any", "None")]),
    # a node class that is iterable (but not a Collection), used as the declared type of a single child field
    ("IterBlock", "Seq", False, "    def __iter__(self):\n        return iter(self.items)\n", []),
    ("IterBlock2", "IterBlock", False, "", [F("label", "str", "prop", "str", '""')]),
    ("Loop", "Expr", False, "", [F("var", "str", "prop", "str", '"i"'), F("body", "IterBlock", "child", "iterblock")]),
    ("Carrier", "Expr", False, "", [F("tok", "Tok", "prop", "tok")]),
    # enum members next to same-valued plain values / members of another enum, inside tuples and frozensets (C01 only:
    # such unions do not round-trip)
    ("EnumBag", "Expr", False, "", [F("vals", "tuple[Any, ...]", "prop", "ebag", "()"), F("cs", "frozenset[Any]", "prop", "eset", "frozenset()"), F("k", "Kind", "prop", "kind", "Kind.NUM")]),
    # an Any-typed property holding (mutable) containers the library must never write to (C10 only)
    ("AnyBox", "Expr", False, "", [F("meta", "Any", "prop", "anybox", "None")]),
    # field names that are parameter names inside the library
    ("Deco", "Expr", False, "", [F("node", "Expr | None", "opt", "any", "None"), F("value", "tuple[Expr, ...]", "tuple", "any", "()"), F("other", "str", "prop", "str", '""'), F("meta", "Any", "prop", "anyjson", 'field(default=None, compare=False)', compare=False)]),
    # dialect-sensitive types (Path) that occur only WRAPPED: no field of the class is annotated exactly Path
    ("Paths", "Expr", False, "", [F("po", "Path | None", "prop", "optpath", "None"), F("tp", "tuple[Path, ...]", "prop", "tpath", "()")]),
    # child annotations that keep INNER quotes although the whole module has postponed annotations
    ("QSeq", "Expr", False, "", [F("items", 'tuple["Expr", ...]', "tuple", "any", "()"), F("opt", 'Optional["Expr"]', "opt", "any", "None")]),
    # a class defined inside a function (__qualname__ != __name__)
    ("LocalLeaf", "Expr", False, "", [F("a", "str", "prop", "str", '""')]),
    # a bookkeeping field that differs between otherwise content-equal nodes
    ("Serial", "Expr", False, "", [F("name", "str", "prop", "str"), F("serial", "int", "prop", "int", "field(init=False, compare=False, default_factory=_next_serial)", compare=False, init=False)]),
    # field names that sort before "__type"
    ("Upper", "Expr", False, "", [F("Name", "str", "prop", "str"), F("ID", "int", "prop", "int", "0"), F("_x", "str", "prop", "str", '""')]),
    # a class that a run may define twice (class factory called twice / re-run cell): see redefine_dyn()
    ("Dyn", "Expr", False, "", [F("value", "int", "prop", "int", "0"), F("unit", "str", "prop", "str", '"kg"'), F("extra", "Expr | None", "opt", "any", "None")]),
    # multiple inheritance (allowed for non-slotted subclasses)
    ("Located", "Expr", False, "", [F("line", "int", "prop", "int", "0"), F("doc", "Expr | None", "opt", "any", "None")]),
    ("Typed", "Expr", False, "", [F("ty", "str", "prop", "str", '""')]),
    ("Lit", "Typed, Located", False, "", [F("v", "str", "prop", "str", '""')]),
    ("Both", "Typed, Located", False, "", []),
    # a user __post_init__ that itself constructs nodes (before and after the library's part) and keeps them
    (
        "Hook",
        "Expr",
        False,
        "    def __post_init__(self) -> None:\n"
        "        helper = LeafA(a='h:' + self.name)\n"
        "        HOOK_SINK.append(helper)\n"
        "        object.__setattr__(self, 'sig', helper.content_id[:6])  # a derived property\n"
        "        ASTNode.__post_init__(self)\n"
        "        HOOK_SINK.append(LeafB(a='h:' + self.name))\n",
        [F("name", "str", "prop", "str"), F("sig", "str", "prop", "str", 'field(init=False, default="")', init=False)],
    ),
    (
        "Boom",
        "Expr",
        False,
        "    def __post_init__(self) -> None:\n"
        "        FAULTS.hit('post_init_pre')\n"
        "        ASTNode.__post_init__(self)\n"
        "        FAULTS.hit('post_init_post')\n",
        [F("a", "str", "prop", "str"), F("memo", "str", "prop", "str", 'field(default="", compare=False)', compare=False)],
    ),
]

_HEADER = '''
from __future__ import annotations
import enum
from dataclasses import dataclass, field
from pathlib import Path
from typing import Literal, Any, NewType, ClassVar, Optional
from mashumaro.types import SerializableType

UserId = NewType("UserId", str)

from pyoak.node import ASTNode
from simkit.core import FAULTS


import itertools
_SERIAL = itertools.count(100)
HOOK_SINK: list = []  # nodes made by user callbacks (Hook.__post_init__); the harness adopts them after each step


def _next_serial() -> int:
    return next(_SERIAL)


class Color(enum.Enum):
    RED = "red"
    GREEN = "green"


class Shade(enum.Enum):
    """a second enum with the values of Color"""
    RED = "red"
    GREEN = "green"


class Kind(enum.Enum):
    """two members whose values have the same str()"""
    NUM = 1
    TXT = "1"


class Op(str, enum.Enum):
    """the string-enum idiom: str(Op.ADD) is 'Op.ADD', the raw characters are '+'"""
    ADD = "+"
    SUB = "-"


class Tok(SerializableType):
    """A property type whose (de)serialization hooks are cooperative fault points."""
    __slots__ = ("v",)

    def __init__(self, v: str) -> None:
        self.v = v

    def _serialize(self) -> dict[str, Any]:
        FAULTS.hit("tok_ser")
        return {"tok": self.v}

    @classmethod
    def _deserialize(cls, value: dict[str, Any]) -> "Tok":
        FAULTS.hit("tok_deser")
        return cls(value["tok"])

    def __eq__(self, other: object) -> bool:
        return isinstance(other, Tok) and other.v == self.v

    def __hash__(self) -> int:
        return hash(("Tok", self.v))

    def __repr__(self) -> str:
        return f"Tok({self.v!r})"

'''


def render(permuted: bool) -> str:
    out = [_HEADER]
    for name, base, slots, body, own in TABLE:
        flds = list(reversed(own)) if permuted else own
        deco = "@dataclass(frozen=True, kw_only=True" + (", slots=True" if slots else "") + ")"
        cl = [deco, f"class {name}({base}):"]
        if not flds and not body:
            cl.append("    pass")
        for f in flds:
            if f.default is None:
                cl.append(f"    {f.name}: {f.ann}")
            else:
                cl.append(f"    {f.name}: {f.ann} = {f.default}")
        if body:
            cl.append(body)
        if name.startswith("Local"):
            cl = [f"def _make_{name}():"] + ["    " + x for x in cl] + [f"    return {name}", "", f"{name} = _make_{name}()"]
        out.extend(cl)
        out.append("")
    return "\n".join(out)


MODNAME = "universe_v2_classes"


def _load() -> types.ModuleType:
    if MODNAME in sys.modules:
        return sys.modules[MODNAME]
    mod = types.ModuleType(MODNAME)
    mod.__file__ = "<universe.v2 generated>"
    sys.modules[MODNAME] = mod
    exec(compile(render(PERMUTED), "<universe.v2 generated>", "exec"), mod.__dict__)
    return mod


M = _load()
CLS: dict[str, type] = {name: getattr(M, name) for name, *_ in TABLE}
Color = M.Color
Shade = M.Shade
Kind = M.Kind
Tok = M.Tok
Op = M.Op

# ---- harness-side field knowledge (from TABLE, in *declared* (non-permuted) order) -------------------

_OWN = {name: own for name, _b, _s, _body, own in TABLE}
_BASE = {name: base for name, base, *_ in TABLE}


MRO: dict[str, list[str]] = {n: [c.__name__ for c in CLS[n].__mro__ if c.__name__ in _OWN] for n in _OWN}  # nearest first


def _linear(name: str) -> list[F]:
    out: list[F] = []
    for c in reversed(MRO[name]):
        for f in _OWN[c]:
            if all(f.name != g.name for g in out):
                out.append(f)
    return out


class _Tab(dict):  # a node of a class that is not part of the universe (library-internal) has no known fields
    def __missing__(self, k: str) -> list:
        return []


class _MroTab(dict):
    def __missing__(self, k: str) -> list:
        return [k]


MRO = _MroTab(MRO)
FIELDS: dict[str, list[F]] = _Tab({name: _linear(name) for name in _OWN})
CHILD_FIELDS: dict[str, list[F]] = _Tab({n: [f for f in fs if f.kind != "prop"] for n, fs in FIELDS.items()})
PROP_FIELDS: dict[str, list[F]] = _Tab({n: [f for f in fs if f.kind == "prop"] for n, fs in FIELDS.items()})

NODE_CLASSES = [n for n in _OWN if n != "Expr"]
LEAF_CLASSES = ["LeafA", "LeafB", "LeafA2", "Meta", "Vals", "FS", "Carrier", "Serial", "Upper", "Lit", "Located", "Typed", "Dyn", "CaseMix", "Both", "FS2", "EnumBag", "AnyBox", "LocalLeaf", "Hook", "Paths"]
INNER_CLASSES = ["Pair", "Seq", "Fixed", "Mixed", "Falsy", "SeqPlus", "Loop", "IterBlock", "IterBlock2", "Deco", "QSeq"]

def redefine_dyn(keep: bool = False):
    """Define `Dyn` again in the same module: first an OLDER version of the class (one field less), which is
    instantiated once and dropped, then the current version.  Same module, same qualified name, three different class
    objects over the life of the process -- legal for pyoak (same module)."""
    old_src = (
        "@dataclass(frozen=True, kw_only=True)\n"
        "class Dyn(Expr):\n"
        "    value: int = 0\n"
    )
    exec(compile(old_src, "<universe.v2 generated>", "exec"), M.__dict__)
    n = M.Dyn(value=1)
    list(n.get_properties())
    list(n.get_child_nodes())
    if not keep:
        n.detach()
        n = None
    cur = next(t for t in TABLE if t[0] == "Dyn")
    flds = list(reversed(cur[4])) if PERMUTED else cur[4]
    src = "@dataclass(frozen=True, kw_only=True)\nclass Dyn(Expr):\n" + "".join(f"    {f.name}: {f.ann} = {f.default}\n" for f in flds)
    exec(compile(src, "<universe.v2 generated>", "exec"), M.__dict__)
    CLS["Dyn"] = M.Dyn
    return n


LATE_FIELDS = [F("a", "str", "prop", "str", '""'), F("kid", "Expr | None", "opt", "any", "None")]


def same_named_pair() -> tuple[Any, Any]:
    """Two node classes of one name, the second derived from the first (class Name(base.Name): pass): instances with
    the same field values.  Defined on demand, in the universe module (same module: legal)."""
    src = "@dataclass(frozen=True, kw_only=True)\nclass Twin(Expr):\n    v: str = ''\n"
    exec(compile(src, "<universe.v2 generated>", "exec"), M.__dict__)
    base = M.Twin
    src2 = "@dataclass(frozen=True, kw_only=True)\nclass Twin(_TwinBase):\n    pass\n"
    M.__dict__["_TwinBase"] = base
    exec(compile(src2, "<universe.v2 generated>", "exec"), M.__dict__)
    return base, M.Twin


def define_late() -> None:
    """A node class that comes into existence in the middle of a run (a plugin imported late): before this call its
    name is unknown to pyoak, afterwards it is an ordinary class of the universe (not in NODE_CLASSES, so that the
    generators never name it before it exists)."""
    flds = list(reversed(LATE_FIELDS)) if PERMUTED else LATE_FIELDS
    src = "@dataclass(frozen=True, kw_only=True)\nclass Late(Expr):\n" + "".join(f"    {f.name}: {f.ann} = {f.default}\n" for f in flds)
    exec(compile(src, "<universe.v2 generated>", "exec"), M.__dict__)
    CLS["Late"] = M.Late
    MRO["Late"] = ["Late", "Expr"]
    FIELDS["Late"] = list(LATE_FIELDS)
    CHILD_FIELDS["Late"] = [f for f in LATE_FIELDS if f.kind != "prop"]
    PROP_FIELDS["Late"] = [f for f in LATE_FIELDS if f.kind == "prop"]


# ---- origins ----------------------------------------------------------------------------------------
from pyoak.origin import (  # noqa: E402
    NO_ORIGIN,
    CodeOrigin,
    GeneratedCodeOrigin,
    MemoryTextSource,
    MultiOrigin,
    XMLFileOrigin,
    XMLPath,
    get_code_range,
)

SRC = {
    "a": MemoryTextSource("alpha beta gamma delta", source_uri="mem:a"),
    "b": MemoryTextSource("<r><t>x</t></r>", source_uri="mem:b"),
    "c": MemoryTextSource("0123456789", source_uri="mem:c"),
}


def _code(src: str, s: int, e: int) -> CodeOrigin:
    return CodeOrigin(SRC[src], get_code_range(s, 1, s, e, 1, e))


ORIGINS: dict[str, Any] = {
    "no": NO_ORIGIN,
    "c:a:0-5": _code("a", 0, 5),
    "c:a:6-10": _code("a", 6, 10),
    "c:c:2-4": _code("c", 2, 4),
    "g:a": GeneratedCodeOrigin(SRC["a"]),
    "x:b:/r/t": XMLFileOrigin(SRC["b"], XMLPath("/r/t")),
    "x:b:/r": XMLFileOrigin(SRC["b"], XMLPath("/r")),
}
ORIGINS["m:aa"] = MultiOrigin([ORIGINS["c:a:0-5"], ORIGINS["c:a:6-10"]])
ORIGINS["m:ab"] = MultiOrigin([ORIGINS["c:a:0-5"], ORIGINS["x:b:/r/t"]])
# a multi-origin over two equal but DISTINCT source objects (the same unit opened twice)
_SRC_A2 = MemoryTextSource("alpha beta gamma delta", source_uri="mem:a")
ORIGINS["m:a+a2"] = MultiOrigin([ORIGINS["c:a:0-5"], CodeOrigin(_SRC_A2, get_code_range(11, 1, 11, 16, 1, 16))])
ORIGINS["m:ba"] = MultiOrigin([ORIGINS["c:a:6-10"], ORIGINS["c:a:0-5"]])  # the parts of m:aa in the other order
ORIGIN_KEYS = list(ORIGINS)
# unequal origins that share one fqn (fqn = <source uri>::<start index>-<end index>), and an entire-source position:
# only used where ids are not judged by their origin (C04, C16)
from pyoak.origin import EntireSourcePosition, Origin as _Origin  # noqa: E402

ORIGINS["c:a:0-0"] = _code("a", 0, 0)
ORIGINS["c:a:0-5@l2"] = CodeOrigin(SRC["a"], get_code_range(0, 2, 0, 5, 2, 5))
ORIGINS["e:a"] = _Origin(SRC["a"], EntireSourcePosition())
from pyoak.origin import PositionSet, SourceSet  # noqa: E402

ORIGINS["ss:empty"] = _Origin(SourceSet(()), PositionSet(()))  # merged from zero inputs: a falsy source
# file-backed sources (never read: the files do not exist; their Path fields go through the serializers' strategies)
from pathlib import Path  # noqa: E402

from pyoak.origin import FileSource, TextFileSource, ZippedFileSource, get_xml_origin  # noqa: E402,F401

ORIGINS["x:f:/r"] = get_xml_origin(Path("data/in.xml"), "/r")
ORIGINS["c:tf:0-3"] = CodeOrigin(TextFileSource(Path("src/a.txt")), get_code_range(0, 1, 0, 3, 1, 3))
ORIGINS["c:zf:1-2"] = CodeOrigin(ZippedFileSource(Path("arch/all.zip"), Path("inner/b.txt")), get_code_range(1, 1, 1, 2, 1, 2))
ORIGINS["x:f..:/r"] = get_xml_origin(Path("data/../in2.xml"), "/r/t")
EXTRA_ORIGIN_KEYS = ["c:a:0-0", "c:a:0-5@l2", "e:a", "ss:empty", "x:f:/r", "c:tf:0-3", "c:zf:1-2", "x:f..:/r"]

# ---- values -----------------------------------------------------------------------------------------
from pathlib import Path  # noqa: E402

_LONG = "L" * 130
STR_POOL = [
    "q",
    "x",
    "",
    "1",
    "True",
    "None",
    "()",
    "1):b=<class 'str'>(2",
    "2):b=<class 'str'>(3",
    "3",
    "2",
    ":a=",
    "a[0]=",
    "@NoOrigin",
    "_1",
    "q_1",
    "[-1]=",
    "=",
    "(",
    ")",
    "<class 'str'>",
    "é☃",
    "line\nbreak",
    _LONG + "A",
    _LONG + "B",
    _LONG[:64] + "A",
    _LONG[:64] + "B",
    _LONG[:16] + "A",
    _LONG[:16] + "B",
]
SMALL_STR_POOL = ["q", "x", "", "1"]
INT_POOL = [0, 1, -1, 2, 7, 2**62, -(2**63), 10, 12]
FLOAT_POOL = [0.5, 0.0, 1.0, 1e300, 3.14, -2.5e-7, 1.0e16]
BOOL_POOL = [True, False]
OPTINT_POOL = [None, 0, 1, 5]
PATH_POOL = ["a/b", "a", "/abs/x.txt", "a b/c", "a/../b", "../x/y.txt"]
LIT_POOL = ["x", "y"]
TINT_POOL = [[], [0], [1, 2], [2, 1], [1, 2, 3], [0, 0]]
TSI_POOL = [["k", 1], ["k", 2], ["", 0], ["1", 1]]
def _colliding_singletons(n: int = 3) -> list[list[int]]:
    """single-int frozensets falling into one slot of a small hash table: the iteration order of a frozenset of them
    depends on the insertion order (hashes of frozensets of ints do not depend on the hash seed)"""
    by_slot: dict[int, list[list[int]]] = {}
    for k in range(1, 4000):
        lst = by_slot.setdefault(hash(frozenset({k})) & 7, [])
        lst.append([k])
        if len(lst) == n:
            return lst
    raise RuntimeError("no colliding sets")


_CS = _colliding_singletons()
FS2_POOL = [[_CS[0], _CS[1], _CS[2]], [_CS[2], _CS[1], _CS[0]], [_CS[1], _CS[2], _CS[0]], [_CS[1], _CS[0]], [_CS[0], _CS[1]]] + [[], [[1]], [[1], [2]], [[2], [1]], [[1, 2], [3]], [[3], [1, 2]], [[1], [1, 2], [2]], [[2], [1, 2], [1]], [[8], [16], [0]], [[16], [8], [0]], [[1, 9], [9, 1, 17]], [[17, 1, 9], [9, 1]]]
EBAG_POOL = [[], ["Color.RED"], ["red"], ["Shade.RED"], ["Color.RED", "Color.GREEN"], ["Shade.RED", "Shade.GREEN"], ["red", "green"], ["Kind.NUM"], [1], ["Kind.TXT"], ["1"], ["Op.ADD"], ["+"]]
ANYBOX_POOL = [{"sentinel": "s1"}, {"sentinel": "s2"}, None, 1, "s", {"span": ["t", 1, 2]}, [["t", 1, 2], ["s", 3]], {"a": {"b": ["t", 1]}}, ["t", 1, 2]]
FS_POOL = [[], ["a"], ["a", "b"], ["b", "a"], ["x", "yy", "zzz"], ["zzz", "x", "yy"], ["8", "16", "0"], ["16", "8", "0"]]
TOK_POOL = ["t", "u", ""]


def pool_for(vt: str) -> list[Any]:
    return {
        "str": STR_POOL,
        "int": INT_POOL,
        "float": FLOAT_POOL,
        "bool": BOOL_POOL,
        "optint": OPTINT_POOL,
        "color": ["RED", "GREEN"],
        "path": PATH_POOL,
        "lit": LIT_POOL,
        "tint": TINT_POOL,
        "tsi": TSI_POOL,
        "fs": FS_POOL,
        "tok": TOK_POOL,
        "op": ["ADD", "SUB"],
        "fs2": FS2_POOL,
        "tstr": [[], ["x"], ["a, b", "c"], ["a", "b, c"], ["1", "2"], ["1, 2"], ["'a'"], ["a"]],
        "ebag": EBAG_POOL,
        "eset": EBAG_POOL,
        "kind": ["NUM", "TXT"],
        "anybox": ANYBOX_POOL,
        "anyjson": [None, 1, "s", [1, 2], ["a"], {"k": [1]}, []],
        "optpath": [None, "a/b", "a/../b"],
        "tpath": [[], ["a"], ["a/b", "../x/y.txt"]],
    }[vt]


def _enum_tok(x: Any) -> Any:
    if isinstance(x, str) and "." in x and x.split(".")[0] in ("Color", "Shade", "Kind", "Op"):
        return {"Color": Color, "Shade": Shade, "Kind": Kind, "Op": Op}[x.split(".")[0]][x.split(".")[1]]
    return x


class Sentinel:
    """a value that compares by identity (no __eq__): copies of it are different values"""

    def __init__(self, tag: str) -> None:
        self.tag = tag

    def __repr__(self) -> str:
        return f"<Sentinel {self.tag}>"


SENTINELS = {"s1": Sentinel("s1"), "s2": Sentinel("s2")}


def _anybox(j: Any) -> Any:
    if isinstance(j, dict) and set(j) == {"sentinel"}:
        return SENTINELS[j["sentinel"]]
    """fresh containers for every decode; ["t", ...] stands for a tuple, ["s", ...] for a set"""
    if isinstance(j, dict):
        return {k: _anybox(v) for k, v in j.items()}
    if isinstance(j, list):
        if j and j[0] == "t":
            return tuple(_anybox(x) for x in j[1:])
        if j and j[0] == "s":
            return {_anybox(x) for x in j[1:]}
        return [_anybox(x) for x in j]
    return j


def _anybox_enc(v: Any) -> Any:
    if isinstance(v, Sentinel):
        return {"sentinel": v.tag}
    if isinstance(v, dict):
        return {k: _anybox_enc(x) for k, x in v.items()}
    if isinstance(v, tuple):
        return ["t"] + [_anybox_enc(x) for x in v]
    if isinstance(v, (set, frozenset)):
        return ["s"] + sorted(_anybox_enc(x) for x in v)
    if isinstance(v, list):
        return [_anybox_enc(x) for x in v]
    return v


def decode(vt: str, j: Any) -> Any:
    """JSON-able encoded value -> python value of the field's type."""
    if vt in ("str", "int", "float", "bool", "optint", "lit"):
        return j
    if vt == "color":
        return Color[j]
    if vt == "path":
        return Path(j)
    if vt in ("tint", "tsi", "tstr"):
        return tuple(j)
    if vt == "fs":
        return frozenset(j) if not isinstance(j, dict) else _fs_ordered(j["order"])
    if vt == "tok":
        return Tok(j)
    if vt == "op":
        return Op[j]
    if vt in ("ebag", "eset"):
        els = [_enum_tok(x) for x in j]
        return tuple(els) if vt == "ebag" else frozenset(els)
    if vt == "kind":
        return Kind[j]
    if vt == "anybox":
        return _anybox(j)
    if vt == "anyjson":
        import copy as _copy

        return _copy.deepcopy(j)
    if vt == "optpath":
        return None if j is None else Path(j)
    if vt == "tpath":
        return tuple(Path(x) for x in j)
    if vt == "fs2":
        out: frozenset = frozenset()
        for inner in j:  # built by successive unions, in the order given
            fi: frozenset = frozenset()
            for x in inner:
                fi = fi | frozenset([x])
            out = out | frozenset([fi])
        return out
    raise KeyError(vt)


def _fs_ordered(items: list[str]) -> frozenset[str]:
    # frozenset built by successive unions: element order of construction follows `items`
    s: frozenset[str] = frozenset()
    for it in items:
        s = s | frozenset([it])
    return s


def encode(vt: str, v: Any) -> Any:
    if vt in ("str", "int", "float", "bool", "optint", "lit"):
        return v
    if vt == "color":
        return v.name
    if vt == "path":
        return v.as_posix()
    if vt in ("tint", "tsi", "tstr"):
        return list(v)
    if vt == "fs":
        return sorted(v)
    if vt == "tok":
        return v.v
    if vt == "op":
        return v.name
    if vt == "fs2":
        return sorted(sorted(x) for x in v)
    if vt in ("ebag", "eset"):
        els = [f"{type(x).__name__}.{x.name}" if isinstance(x, enum.Enum) else x for x in v]
        return els if vt == "ebag" else sorted(els, key=repr)
    if vt == "kind":
        return v.name
    if vt == "anybox":
        return _anybox_enc(v)
    if vt == "anyjson":
        return v
    if vt == "optpath":
        return None if v is None else v.as_posix()
    if vt == "tpath":
        return [x.as_posix() for x in v]
    raise KeyError(vt)


def canon(v: Any) -> Any:
    """Canonical, hashable, type-exact rendering of a property value (Appendix A.1)."""
    if isinstance(v, (frozenset, set)):
        return ("set", tuple(sorted((canon(e) for e in v), key=repr)))
    if isinstance(v, tuple):
        return ("tuple", tuple(canon(e) for e in v))
    if isinstance(v, enum.Enum):
        return (type(v).__name__, v.name)
    if isinstance(v, Path):
        return ("path", v.as_posix())
    if isinstance(v, Tok):
        return ("Tok", v.v)
    return (type(v).__name__, repr(v))
