"""The legacy world: histories over parent-aware AwareASTNode trees (C18) and rejected operations (C19).

S9 of DESIGN.md: AwareASTNode._nodes (weak registry) + per-node parent id/field/index + cached content_id are
redundant state kept in sync by hand.  C18 runs histories of successful, admissible ops and checks structural
invariants I1..I5 over everything reachable from user handles after every op; C19 inserts ops constructed to be
rejected (rejection point enumerated over child positions / depths) and compares a full snapshot of public
observables before and after.
"""
from __future__ import annotations

import dataclasses
import warnings
from typing import Any

warnings.simplefilter("ignore", DeprecationWarning)

from simkit.core import FAULTS, HarnessError, InjectedFault, RunStats, SkipOp, Violation, collect, fp  # noqa: E402
from simkit.rng import Rng, weighted  # noqa: E402

from pyoak.legacy import error as LE  # noqa: E402
from pyoak.legacy.node import ASTTransformer, ASTTransformVisitor, AwareASTNode  # noqa: E402
from universe import legacy_u as L  # noqa: E402

NAME = "legacyworld"
PROPS = ("C18", "C19")
NEEDS_PEER = ()

DOCUMENTED = (
    LE.ASTNodeDuplicateChildrenError,
    LE.ASTNodeParentCollisionError,
    LE.ASTNodeRegistryCollisionError,
    LE.ASTNodeIDCollisionError,
    LE.ASTNodeReplaceError,
    LE.ASTNodeReplaceWithError,
    LE.ASTTransformError,
)


class Cut(Exception):
    def __init__(self, why: str):
        super().__init__(why)
        self.why = why


def cname(o: Any) -> str:
    return type(o).__name__


def children_of(o: Any) -> list[tuple[str, int | None, Any]]:
    out: list[tuple[str, int | None, Any]] = []
    for fname, kind, _allowed in L.CHILD_FIELDS[cname(o)]:
        v = getattr(o, fname)
        if kind in ("tuple", "list"):
            for i, c in enumerate(v):
                out.append((fname, i, c))
        elif v is not None:
            out.append((fname, None, v))
    return out


def walk(o: Any, _depth: int = 0) -> list[Any]:
    if _depth > 60:
        raise Cut("cyclic structure")
    out = [o]
    for _f, _i, c in children_of(o):
        out.extend(walk(c, _depth + 1))
    return out


def okey(origin: Any) -> str:
    for k, v in L.ORIGINS.items():
        if v is origin or (type(v) is type(origin) and v == origin):
            return k
    return "?"


class World:
    def __init__(self, cfg: dict[str, Any], prop: str):
        self.cfg = cfg
        self.prop = prop
        self.stats = RunStats()
        self.trace: list[dict[str, Any]] = []
        self.step_no = 0
        self.handles: dict[str, Any] = {}
        self._retired: dict[int, Any] = {}  # id() -> weakref of receivers of a successful replace (stale shallow copies)
        self.rb = 0
        # Reference lifetimes are not among the quantified legacy operations: every node that was ever reachable is
        # kept alive, so that the weak registry never loses an attached parent behind a surviving child's back
        self.kept: dict[int, Any] = {}
        FAULTS.disarm()
        if len(AwareASTNode._nodes) != 0:
            raise HarnessError("legacy registry not pristine")

    def on(self, p: str) -> bool:
        return self.prop == p

    def retire(self, n: Any) -> None:
        import weakref

        self._retired[id(n)] = weakref.ref(n)

    def is_retired(self, o: Any) -> bool:
        r = self._retired.get(id(o))
        return r is not None and r() is o

    def viol(self, oracle: str, sig: str, message: str, **facts: Any) -> Violation:
        return Violation(self.prop, oracle, sig, message, {"step": self.step_no, **facts})

    # ---- references
    def node_at(self, ref: dict[str, Any]) -> Any:
        o = self.handles.get(ref["h"])
        if o is None:
            raise SkipOp("no handle")
        for fname, idx in ref.get("path", ()):
            if not any(f == fname for f, _k, _a in L.CHILD_FIELDS[cname(o)]):
                raise SkipOp("bad path")
            v = getattr(o, fname)
            if idx is None:
                if v is None or isinstance(v, (tuple, list)):
                    raise SkipOp("bad path")
                o = v
            else:
                if not isinstance(v, (tuple, list)) or idx >= len(v):
                    raise SkipOp("bad path")
                o = v[idx]
        return o

    def reach(self) -> list[Any]:
        seen: dict[int, Any] = {}
        stack = list(reversed(list(self.handles.values())))
        while stack:
            o = stack.pop()
            if id(o) in seen:
                continue
            seen[id(o)] = o
            for _f, _i, c in reversed(children_of(o)):
                stack.append(c)
        return list(seen.values())

    def positions(self) -> dict[int, list[tuple[Any, str, int | None]]]:
        """object id -> positions (holder, field, index) among non-retired held nodes."""
        pos: dict[int, list[tuple[Any, str, int | None]]] = {}
        for o in self.reach():
            if self.is_retired(o):
                continue
            for f, i, c in children_of(o):
                pos.setdefault(id(c), []).append((o, f, i))
        return pos

    def is_free(self, o: Any) -> bool:
        """Sits in no child field of any (non-retired) held node."""
        return id(o) not in self.positions()

    def attachable(self, n: Any, seen: set[str] | None = None) -> bool:
        """Mirror of the documented attach preconditions, through public observables only."""
        seen = set() if seen is None else seen
        if n.id in seen or AwareASTNode.get_any(n.id) is not None:
            return False
        seen.add(n.id)
        ids = set()
        for _f, _i, c in children_of(n):
            if c.id in ids:
                return False
            ids.add(c.id)
            if c.detached:
                if not self.attachable(c, seen):
                    return False
            elif not c.is_attached_root:
                return False
        return True

    # ---- building
    def build(self, spec: dict[str, Any], **extra: Any) -> Any:
        if "ref" in spec:
            return self.node_at(spec["ref"])
        return self.construct(spec, self.build_kw(spec), **extra)

    def construct(self, spec: dict[str, Any], kw: dict[str, Any], **extra: Any) -> Any:
        kw = dict(kw)
        kw.update(extra)
        return L.CLS[spec["c"]](origin=L.ORIGINS[spec.get("o", "no")], **kw)

    def build_kw(self, spec: dict[str, Any]) -> dict[str, Any]:
        cls = spec["c"]
        kw: dict[str, Any] = dict(spec.get("p", {}))
        for fname, sub in spec.get("ch", {}).items():
            kind = next(k for f, k, _a in L.CHILD_FIELDS[cls] if f == fname)
            if kind == "tuple":
                kw[fname] = tuple(self.build(s) for s in sub)
            elif kind == "list":
                kw[fname] = [self.build(s) for s in sub]
            else:
                kw[fname] = None if sub is None else self.build(sub)
        for k in ("id", "ensure_unique_id", "create_as_duplicate", "create_detached"):
            if k in spec:
                kw[k] = spec[k]
        return kw

    def rebuild(self, n: Any) -> Any:
        """An independently built equal tree (detached, fresh explicit ids): nothing cached or propagated."""
        kw: dict[str, Any] = {}
        for pname, _cmp in L.PROP_FIELDS[cname(n)]:
            kw[pname] = getattr(n, pname)
        for fname, kind, _a in L.CHILD_FIELDS[cname(n)]:
            v = getattr(n, fname)
            if kind == "tuple":
                kw[fname] = tuple(self.rebuild(c) for c in v)
            elif kind == "list":
                kw[fname] = [self.rebuild(c) for c in v]
            else:
                kw[fname] = None if v is None else self.rebuild(v)
        self.rb += 1
        return type(n)(origin=n.origin, id=f"rebuild-{self.rb}", create_detached=True, **kw)

    # ---- the step
    def step(self, op: dict[str, Any]) -> None:
        self.step_no = op.get("step", self.step_no + 1)
        fn = getattr(self, "op_" + op["op"])
        FAULTS.disarm()
        self.trace.append(op)
        try:
            outcome = fn(op)
        except SkipOp:
            self.trace.pop()
            self.stats.skipped += 1
            return
        finally:
            FAULTS.disarm()
        self.stats.note_step(op.get("actor", "a0"), op["op"], outcome.split(":")[0])
        for o in self.reach():
            self.kept.setdefault(id(o), o)
        collect()
        if not outcome.startswith("rejected") or self.on("C18"):
            self.check_invariants(op, outcome)
        self.fingerprint()

    def fingerprint(self) -> None:
        items = []
        for o in self.reach():
            items.append((cname(o), o.detached, o.parent is not None, self.is_retired(o), len(children_of(o))))
        items.sort()
        self.stats.states.add(fp(items))

    # ---- C18 invariants
    def check_invariants(self, op: dict[str, Any], outcome: str) -> None:
        if not self.on("C18"):
            return
        self.stats.checks += 1
        reach = self.reach()
        pos = self.positions()
        for oid, ps in pos.items():
            if len(ps) > 1:
                raise Cut("inadmissible history: one node object at two positions (generator)")
        kind = op["op"]
        attached = [o for o in reach if not o.detached and not self.is_retired(o)]
        for n in attached:
            for f, i, c in children_of(n):
                if c.detached:
                    raise self.viol("C18.1 child-of-attached-node-detached", f"C18.1:detached:{kind}", f"after {kind}: attached {cname(n)} holds a detached child in {f}[{i}]", op=kind)
                if c.parent is not n:
                    what = "none" if c.parent is None else "other"
                    raise self.viol("C18.1 child-reports-wrong-parent", f"C18.1:parent-{what}:{kind}", f"after {kind}: child in {f}[{i}] of an attached {cname(n)} reports parent {what}", op=kind)
                if c.parent_field is None or c.parent_field.name != f or c.parent_index != i:
                    raise self.viol(
                        "C18.1 child-reports-wrong-position",
                        f"C18.1:position:{kind}",
                        f"after {kind}: child stored in {f}[{i}] reports field {getattr(c.parent_field, 'name', None)} index {c.parent_index}",
                        op=kind,
                    )
            p = n.parent
            if p is not None:
                fname = n.parent_field.name if n.parent_field is not None else None
                ok = False
                if fname is not None and hasattr(p, fname):
                    v = getattr(p, fname)
                    if n.parent_index is None:
                        ok = v is n
                    else:
                        ok = isinstance(v, (tuple, list)) and n.parent_index < len(v) and v[n.parent_index] is n
                if not ok:
                    raise self.viol("C18.2 not-stored-in-parent", f"C18.2:{kind}", f"after {kind}: attached {cname(n)} reports a parent that does not store it at {fname}[{n.parent_index}]", op=kind)
            if AwareASTNode.get_any(n.id) is not n or type(n).get(n.id) is not n:
                raise self.viol("C18.3 lookup", f"C18.3:{kind}", f"after {kind}: lookup does not return an attached {cname(n)} under its id", op=kind)
        # I4: content ids of attached nodes vs an independently built equal tree
        for n in attached:
            if n.parent is not None:
                continue  # checked as part of its root's rebuild below
            self.check_content(n, kind)
        # I5: upward queries agree with the structure
        for r in attached:
            if r.parent is None:
                self.check_upward(r, kind)
        # ... also ACROSS attached trees: another tree's root is no ancestor
        roots = [r for r in attached if r.parent is None][:6]
        for r1 in roots:
            inner = [c for _f, _i, c in children_of(r1)][:2]
            inner += [c2 for c in inner[:1] for _f, _i, c2 in children_of(c)][:1]
            for r2 in roots:
                if r2 is r1:
                    continue
                for n in inner:
                    self.stats.probes["cross_tree_upward_checked"] += 1
                    if r2.is_ancestor(n):
                        raise self.viol("C18.5 is_ancestor", "C18.5:is_ancestor:cross-tree", f"after {kind}: the root of ANOTHER attached tree claims to be an ancestor of a {cname(n)}")
                    try:
                        gd: Any = n.get_depth(relative_to=r2)
                    except ValueError:
                        gd = "ValueError"
                    if gd != "ValueError":
                        raise self.viol("C18.5 relative-depth-non-ancestor", "C18.5:relative-depth-non-ancestor:cross-tree", f"after {kind}: {cname(n)}.get_depth(relative_to=the root of another attached tree) = {gd} instead of ValueError")

    def check_content(self, root: Any, kind: str) -> None:
        rb = self.rebuild(root)
        for a, b in zip(walk(root), walk(rb)):
            if a.content_id != b.content_id:
                depth = "root" if a is root else "inner"
                raise self.viol(
                    "C18.4 stale-content_id",
                    f"C18.4:{kind}:{depth}",
                    f"after {kind}: attached {cname(a)} has content_id {a.content_id[:12]}.., an independently built equal tree has {b.content_id[:12]}..",
                    op=kind,
                )

    def check_upward(self, root: Any, kind: str) -> None:
        chains: list[tuple[Any, list[Any], str]] = []

        def rec(n: Any, chain: list[Any], xp: str) -> None:
            chains.append((n, chain, xp))
            for f, i, c in children_of(n):
                rec(c, [n] + chain, f"{xp}/@{f}[{i or '0'}]{cname(c)}")

        rec(root, [], f"/@root[0]{cname(root)}")
        sample = chains[:25]
        # the structural queries come first: whatever xpaths an EARLIER calculation left on these nodes (possibly
        # stale by now) must not influence them; only then the xpaths are calculated afresh and compared
        self.check_structure_queries(sample, chains, kind)
        did_xpath = root.calculate_xpath()
        if not did_xpath:
            raise self.viol("C18.5 calculate_xpath", f"C18.5:refused:{kind}", "calculate_xpath() refused an attached root")
        for n, chain, xp in sample:
            if n.xpath != xp:
                raise self.viol("C18.5 xpath", f"C18.5:xpath:{kind}", f"after {kind}: xpath {n.xpath!r}, structure spells {xp!r}")

    def check_structure_queries(self, sample: list[tuple[Any, list[Any], str]], chains: list[tuple[Any, list[Any], str]], kind: str) -> None:
        for n, chain, _xp in sample:
            anc = list(n.ancestors())
            if len(anc) != len(chain) or any(a is not b for a, b in zip(anc, chain)):
                raise self.viol("C18.5 ancestors", f"C18.5:ancestors:{kind}", f"after {kind}: ancestors() of a {cname(n)} disagrees with the structure")
            if n.get_depth() != len(chain):
                raise self.viol("C18.5 depth", f"C18.5:depth:{kind}", f"after {kind}: get_depth() = {n.get_depth()}, structure says {len(chain)}")
        for n, chain, _xp in sample[:12]:
            for m, _c2, _x2 in sample[:12]:
                want = any(m is a for a in chain)
                got = m.is_ancestor(n)
                if got != want:
                    twin = any(a == m and a is not m for a in [x for x, _c, _p in chains])
                    raise self.viol(
                        "C18.5 is_ancestor",
                        f"C18.5:is_ancestor:{'equal-twin' if twin else 'other'}",
                        f"after {kind}: {cname(m)}.is_ancestor({cname(n)}) is {got}, structure says {want}",
                    )
                if want:
                    d = next(i for i, a in enumerate(chain) if a is m) + 1
                    try:
                        gd = n.get_depth(relative_to=m)
                    except ValueError:
                        gd = "ValueError"
                    if gd != d:
                        twin = any(a == m and a is not m for a in chain)
                        raise self.viol("C18.5 relative-depth", f"C18.5:relative-depth:{'equal-twin' if twin else 'other'}", f"after {kind}: get_depth(relative_to=ancestor) = {gd}, structure says {d}")
                else:
                    # documented: ValueError when relative_to is not an ancestor (another attached tree's root, a
                    # sibling, a descendant, the node itself)
                    try:
                        gd = n.get_depth(relative_to=m)
                    except ValueError:
                        gd = "ValueError"
                    if gd != "ValueError":
                        twin = any(a == m and a is not m for a in chain)
                        raise self.viol("C18.5 relative-depth-non-ancestor", f"C18.5:relative-depth-non-ancestor:{'equal-twin' if twin else 'other'}", f"after {kind}: {cname(n)}.get_depth(relative_to=a {cname(m)} that is no ancestor) = {gd} instead of ValueError")
                    self.stats.probes["relative_depth_non_ancestor_checked"] += 1

    # ---- ops (successful, admissible) -------------------------------------------------------
    def before(self) -> None:
        """C19: snapshot right before the library call proper (arguments are already built)."""
        self._before = self.snapshot() if self.on("C19") else None

    def expect_ok(self, what: str, e: Exception) -> str:
        if isinstance(e, DOCUMENTED) and self.on("C19") and getattr(self, "_before", None) is not None:
            # an unplanned rejection is a rejection all the same: judge it, and (state unchanged) carry on
            err = type(e).__name__
            before = self._before
            self._before = None
            del e
            collect()
            self.stats.probes["rejected:unplanned:" + what] += 1
            self.compare_snap(before, {"op": what, "bad": "unplanned"}, err)
            return "rejected:" + err
        if isinstance(e, DOCUMENTED):
            cause = e.__cause__ or e.__context__
            why = f" <- {type(cause).__name__}: {str(cause)[:60]}" if cause is not None else ""
            raise Cut(f"{what} rejected ({type(e).__name__}) although built to be admissible{why}")
        raise Cut(f"{what} raised {type(e).__name__}: {e}")

    def op_new(self, op: dict[str, Any]) -> str:
        self._before = None
        try:
            if "ref" in op["spec"]:
                raise SkipOp("nothing to construct")
            kw = self.build_kw(op["spec"])
            self.before()
            o = self.construct(op["spec"], kw)
            del kw
        except SkipOp:
            raise
        except Exception as e:  # noqa: BLE001
            kw = None
            return self.expect_ok("construct", e)
        self.handles[op["out"]] = o
        if self.on("C18") and not op["spec"].get("create_detached"):
            for x in walk(o):
                if x.detached:
                    raise self.viol("C18.6 construct-effect", "C18.6:new", "after a default construction a node of the new tree is not attached")
        return "ok"

    def droppable(self, h: str) -> bool:
        """Dropping references is not one of the quantified legacy operations; it is only used to let WHOLE trees
        die: a handle may be dropped if no other handle points into the tree it belongs to (otherwise a surviving
        child would keep a dangling parent id that a later node with the same id silently takes over)."""
        o = self.handles[h]
        pos = self.positions()
        root = o
        hops = 0
        while id(root) in pos and hops < 100:
            root = pos[id(root)][0][0]
            hops += 1
        members = {id(x) for x in walk(root)}
        if root is not o:
            return True  # another holder (reachable from another handle) keeps it alive anyway
        return not any(id(x) in members for k, x in self.handles.items() if k != h)

    def op_set_config(self, op: dict[str, Any]) -> str:
        """A configuration change between operations (the legacy nodes must not care)."""
        import pyoak.config as pcfg

        pcfg.ID_DIGEST_SIZE = op["digest"]
        return "ok"

    def op_drop(self, op: dict[str, Any]) -> str:
        if op["h"] not in self.handles or not self.droppable(op["h"]):
            raise SkipOp("no handle / not droppable")
        del self.handles[op["h"]]
        return "ok"

    def op_attach(self, op: dict[str, Any]) -> str:
        n = self.node_at(op["n"])
        self.before()
        try:
            n.attach()
        except Exception as e:  # noqa: BLE001
            return self.expect_ok("attach", e)
        if self.on("C18"):
            for x in walk(n):
                if x.detached:
                    raise self.viol("C18.6 attach-effect", "C18.6:attach", "after attach() a node of the subtree is not attached")
        return "ok"

    def op_detach(self, op: dict[str, Any]) -> str:
        n = self.node_at(op["n"])
        was_root = n.is_attached_root
        was_detached = n.detached
        nodes = walk(n)
        try:
            ret = n.detach(only_self=op.get("only_self", False))
        except Exception as e:  # noqa: BLE001
            return self.expect_ok("detach", e)
        if self.on("C18"):
            if was_detached and ret is not True:
                raise self.viol("C18.6 detach-effect", "C18.6:detach-ret", "detach() of a detached node did not return True")
            if not was_detached and not was_root:
                if ret is not False or n.detached:
                    raise self.viol("C18.6 detach-effect", "C18.6:detach-subtree", "detach() of a node that has an attached parent must be a no-op returning False")
            if was_root:
                if ret is not True or not n.detached:
                    raise self.viol("C18.6 detach-effect", "C18.6:detach-root", "detach() of an attached root did not detach it")
                if not op.get("only_self") and any(not x.detached for x in nodes):
                    raise self.viol("C18.6 detach-effect", "C18.6:detach-tree", "detach() of an attached root left a descendant attached")
        return "ok"

    def changes(self, o: Any, ch: dict[str, Any]) -> dict[str, Any]:
        kw: dict[str, Any] = {}
        for fname, v in ch.items():
            if "v" in v:
                kw[fname] = v["v"]
            elif "o" in v:
                kw[fname] = L.ORIGINS[v["o"]]
            elif "spec" in v:
                kw[fname] = None if v["spec"] is None else self.build(v["spec"])
            elif "specs" in v:
                seq = [self.build(s) for s in v["specs"]]
                kw[fname] = seq if v.get("kind") == "list" else tuple(seq)
        return kw

    def op_replace(self, op: dict[str, Any]) -> str:
        n = self.node_at(op["n"])
        was_attached = not n.detached
        parent = n.parent
        self._before = None
        try:
            kw = self.changes(n, op["ch"])
            self.before()
            ret = n.replace(**kw)
            del kw
        except SkipOp:
            raise
        except Exception as e:  # noqa: BLE001
            kw = None
            return self.expect_ok("replace", e)
        self.retire(n)
        # the stale receiver keeps python references to children; keep it alive only through an explicit stale handle
        for h, o in list(self.handles.items()):
            if o is n:
                self.handles[h] = ret
        if op.get("keep_stale"):
            self.handles[op["out"] + "s"] = n
        if parent is None and not any(o is ret for o in self.handles.values()):
            self.handles[op["out"]] = ret
        if self.on("C18"):
            if ret.id != n.id:
                raise self.viol("C18.6 replace-effect", "C18.6:replace-id", "replace() result has another id than the receiver")
            if was_attached != (not ret.detached):
                raise self.viol("C18.6 replace-effect", "C18.6:replace-attached", f"replace() of an {'attached' if was_attached else 'detached'} node returned an {'attached' if not ret.detached else 'detached'} one")
            if was_attached and not n.detached:
                raise self.viol("C18.6 replace-effect", "C18.6:replace-receiver", "replace() left the receiver attached")
        return "ok"

    def op_replace_with(self, op: dict[str, Any]) -> str:
        n = self.node_at(op["n"])
        parent = n.parent
        pf, pi = (n.parent_field.name if n.parent_field else None), n.parent_index
        was_attached = not n.detached
        self._before = None
        try:
            new = None if op.get("new") is None else self.build(op["new"])
            self.before()
            n.replace_with(new)
        except SkipOp:
            raise
        except Exception as e:  # noqa: BLE001
            new = None
            return self.expect_ok("replace_with", e)
        for h, o in list(self.handles.items()):
            if o is n and new is not None:
                self.handles[h] = new
        if new is not None and parent is None and not any(o is new for o in self.handles.values()):
            self.handles[op["out"]] = new
        if op.get("keep_stale"):
            self.handles[op["out"] + "s"] = n
        if self.on("C18") and was_attached:
            if any(not x.detached for x in walk(n)):
                raise self.viol("C18.6 replace_with-effect", "C18.6:replace_with-old", "replace_with() left (part of) the receiver's subtree attached")
            if new is not None and any(x.detached for x in walk(new)):
                raise self.viol("C18.6 replace_with-effect", "C18.6:replace_with-new", "replace_with() did not attach the replacement subtree")
            if new is not None and parent is not None:
                v = getattr(parent, pf)
                if (v[pi] if pi is not None else v) is not new:
                    raise self.viol("C18.6 replace_with-effect", "C18.6:replace_with-position", "the replacement is not stored at the receiver's position")
        return "ok"

    def op_stale(self, op: dict[str, Any]) -> str:
        """Operations on a stale handle (receiver of an earlier replace) that must not disturb the attached world."""
        n = self.handles.get(op["h"])
        if n is None or not self.is_retired(n) or not n.detached:
            raise SkipOp("no stale handle")
        if op["what"] == "replace" and not L.PROP_FIELDS[cname(n)]:
            raise SkipOp("no property")
        self.before()
        try:
            if op["what"] == "detach":
                ret = n.detach()
            elif op["what"] == "detach_self":
                ret = n.detach_self()
            elif op["what"] == "replace":
                # a second functional update of the same superseded object (n.replace(a=..); n.replace(b=..)): only a
                # detached copy may come back, the attached world is none of its business
                props = L.PROP_FIELDS[cname(n)]
                ret = n.replace(**{props[0][0]: op.get("value", "st")})
                if not ret.detached:
                    raise self.viol("C18.6 replace-effect", "C18.6:stale-replace-attached", "replace() on an already superseded (detached) node returned an attached node")
                del ret
                ret = True
            else:
                ret = n.duplicate(as_detached_clone=True)
                if any(not x.detached for x in walk(ret)):
                    raise self.viol("C18.6 duplicate-effect", "C18.6:duplicate:stale-clone", "a detached clone of a stale node is attached")
                ret = True
        except Violation:
            raise
        except Exception as e:  # noqa: BLE001
            return self.expect_ok("stale-" + op["what"], e)
        if self.on("C18") and ret is not True:
            raise self.viol("C18.6 detach-effect", "C18.6:stale-detach-ret", f"{op['what']}() on an already detached (stale) node returned {ret}")
        self.stats.probes["stale_receiver_op"] += 1
        return "ok"

    def op_duplicate(self, op: dict[str, Any]) -> str:
        n = self.node_at(op["n"])
        self.before()
        try:
            d = n.duplicate(as_detached_clone=op.get("detached", False))
        except Exception as e:  # noqa: BLE001
            return self.expect_ok("duplicate", e)
        self.handles[op["out"]] = d
        if self.on("C18"):
            want_detached = op.get("detached", False)
            if any(x.detached != want_detached for x in walk(d)):
                raise self.viol("C18.6 duplicate-effect", f"C18.6:duplicate:{'clone' if want_detached else 'attached'}", "duplicate() attachedness differs from the documented effect")
        return "ok"

    def mk_visitor(self, rules: dict[str, Any], fault_k: int | None) -> Any:
        # one visitor OBJECT per rule set for the whole run: users keep their visitors around
        import json as _json

        key = _json.dumps(rules, sort_keys=True)
        cache = self.__dict__.setdefault("_visitors", {})
        if key in cache:
            self.stats.probes["visitor_object_reused"] += 1
            return cache[key]
        w = self
        ns: dict[str, Any] = {}

        def mk(cn: str, rule: Any):
            def visit(self, node):  # noqa: ANN001
                FAULTS.hit("lvisit")
                base = self.generic_visit(node)
                kind = rule if isinstance(rule, str) else rule[0]
                if kind == "keep" or base is None:
                    return base
                if kind == "remove":
                    return None
                if kind == "rewrite":
                    return base.replace(**{rule[1]: rule[2]})
                if kind == "fresh":
                    return w.build(rule[1], create_detached=True)
                if kind == "mutate_raise":
                    # the rule uses the library on the node it was handed, then fails (e.g. validating its result)
                    node.replace(**{rule[1]: rule[2]})
                    raise RuntimeError("rule failed after building its result")
                if kind == "wrap_self":
                    # wraps the node in a modified copy of itself (the copy keeps the id): never attachable
                    return base.replace(tag="w", one=base)
                if kind == "existing":
                    return w.node_at(rule[1])  # a pre-existing node of the user's (e.g. a definition looked up elsewhere)
                if kind == "bad":
                    return w.build(rule[1])  # an attached (parentless) fresh tree: fine; used by C19 with wrong types
                raise HarnessError(str(rule))

            visit.__name__ = "visit_" + cn
            return visit

        for cn, rule in rules.items():
            ns["visit_" + cn] = mk(cn, rule)
        V = type("LRuleVisitor", (ASTTransformVisitor,), ns)
        cache[key] = V()
        return cache[key]

    def retire_stale(self, nodes: list[Any]) -> None:
        """Nodes replaced inside a library-driven rewrite (replace() keeps the id): the old objects are stale shallow
        copies that still reference the children now owned by their replacements."""
        for o in nodes:
            if o.detached:
                tw = AwareASTNode.get_any(o.id)
                if tw is not None and tw is not o:
                    self.retire(o)

    def op_transform(self, op: dict[str, Any]) -> str:
        n = self.node_at(op["n"])
        parent = n.parent
        tree_before = walk(n)
        v = self.mk_visitor(op["rules"], None)
        self.before()
        try:
            res = v.transform(n)
        except Exception as e:  # noqa: BLE001
            return self.expect_ok("transform", e)
        for h, o in list(self.handles.items()):
            if o is n and res is not None and res is not n:
                self.handles[h] = res
        if res is not None and parent is None and not any(o is res for o in self.handles.values()):
            self.handles[op["out"]] = res
        self.retire_stale(tree_before)
        return "ok"

    def op_transformer(self, op: dict[str, Any]) -> str:
        n = self.node_at(op["n"])
        rules = op["rules"]
        w = self
        tree_before = walk(n)

        class T(ASTTransformer):
            def transform(self, node):  # noqa: ANN001
                rule = rules.get(cname(node))
                if rule is None:
                    return node
                kind = rule if isinstance(rule, str) else rule[0]
                if kind == "keep":
                    return node
                if kind == "remove":
                    return None
                if kind == "rewrite":
                    return node.replace(**{rule[1]: rule[2]})
                if kind == "fresh":
                    return w.build(rule[1], create_detached=True)
                raise HarnessError(str(rule))

        self._before = None  # a transformer applies its changes one by one: a late rejection keeps the earlier ones
        try:
            res = T().execute(n)
        except Exception as e:  # noqa: BLE001
            return self.expect_ok("transformer", e)
        if res is not None and res is not n:
            for h, o in list(self.handles.items()):
                if o is n:
                    self.handles[h] = res
        self.retire_stale(tree_before)
        return "ok"

    # ---- C19: ops constructed to be rejected -------------------------------------------------
    def snapshot(self) -> dict[str, Any]:
        snap: dict[str, Any] = {}
        objs = {id(o): o for o in self.reach()}
        for v in list(AwareASTNode._nodes.values()):
            objs.setdefault(id(v), v)
        for oid, o in objs.items():
            p = o.parent
            rec: dict[str, Any] = {
                "cls": cname(o),
                "attached": not o.detached,
                "parent": id(p) if p is not None else None,
                "parent_field": o.parent_field.name if o.parent_field is not None else None,
                "parent_index": o.parent_index,
                "id": o.id,
                "original_id": o.original_id,
                "id_collision_with": o.id_collision_with,
                "content_id": o.content_id,
                "origin": okey(o.origin),
            }
            for pname, _c in L.PROP_FIELDS[cname(o)]:
                rec["p:" + pname] = repr(getattr(o, pname))
            for fname, kind, _a in L.CHILD_FIELDS[cname(o)]:
                v = getattr(o, fname)
                if kind in ("tuple", "list"):
                    rec["c:" + fname] = (id(v) if kind == "list" else None, tuple(id(c) for c in v))
                else:
                    rec["c:" + fname] = id(v) if v is not None else None
            snap[oid] = rec
        snap["__registry__"] = {k: id(v) for k, v in list(AwareASTNode._nodes.items())}
        self._snap_objs = objs
        return snap

    def compare_snap(self, before: dict[str, Any], op: dict[str, Any], err: str) -> None:
        after = self.snapshot()
        bad = op["bad"]
        sig0 = f"{op['op']}:{bad}:{err}"
        if bad == "transform_visitor_raises_detached_root_attached_children" and before != after:
            # one known finding, whatever exactly was left behind (known_findings.json)
            raise self.viol(
                "C19.1 registry-changed-by-rejected-op",
                "C19.1:transform-of-detached-root-over-attached-children",
                f"{op['op']} of a detached root whose children are still attached was rejected with {err} after some of those children had already been replaced for good",
                bad=bad,
            )
        if before["__registry__"] != after["__registry__"]:
            added = set(after["__registry__"]) - set(before["__registry__"])
            removed = set(before["__registry__"]) - set(after["__registry__"])
            what = "added" if added else ("removed" if removed else "rebound")
            raise self.viol(
                "C19.1 registry-changed-by-rejected-op",
                f"C19.1:{sig0}:{what}",
                f"{op['op']} was rejected with {err} but the registry changed ({what}: {len(added) or len(removed)} ids)",
                bad=bad,
            )
        for oid, rec in before.items():
            if oid == "__registry__":
                continue
            now = after.get(oid)
            if now is None:
                continue
            if now != rec:
                changed = sorted(k for k in rec if rec[k] != now.get(k))
                raise self.viol(
                    "C19.2 node-changed-by-rejected-op",
                    f"C19.2:{sig0}:{','.join(k.split(':')[0] if k.startswith(('c:', 'p:')) else k for k in changed)}",
                    f"{op['op']} was rejected with {err} but a pre-existing {rec['cls']} changed in {changed}: "
                    + "; ".join(f"{k}: {rec[k]!r} -> {now.get(k)!r}" for k in changed[:4]),
                    bad=bad,
                    changed=changed,
                )

    def op_reject(self, op: dict[str, Any]) -> str:
        """Execute an op built to be rejected; judge only if it raised one of the documented errors."""
        before = self.snapshot() if self.on("C19") else None
        act = op["act"]
        err = None
        flt = op.get("fault")
        try:
            if act == "new":
                kw = self.build_kw(op["spec"])
                before = self.snapshot() if self.on("C19") else None
                self.construct(op["spec"], kw)
            elif act == "attach":
                self.node_at(op["n"]).attach()
            elif act == "replace":
                n = self.node_at(op["n"])
                kw = self.changes(n, op["ch"])
                before = self.snapshot() if self.on("C19") else None
                n.replace(**kw)
            elif act == "replace_with":
                n = self.node_at(op["n"])
                new = None if op.get("new") is None else self.build(op["new"])
                # snapshot again: building the replacement is a separate, successful operation
                before = self.snapshot() if self.on("C19") else None
                n.replace_with(new)
            elif act == "transform":
                n = self.node_at(op["n"])
                v = self.mk_visitor(op["rules"], None)
                if flt:
                    FAULTS.arm(flt["site"], flt["k"])
                v.transform(n)
            else:
                raise HarnessError(act)
        except SkipOp:
            raise
        except HarnessError:
            raise
        except DOCUMENTED as e:
            err = type(e).__name__
            del e
        except Exception as e:  # noqa: BLE001
            self.stats.probes["reject_undocumented:" + type(e).__name__] += 1
            raise Cut(f"op built to be rejected raised undocumented {type(e).__name__}: {e}") from None
        finally:
            FAULTS.disarm()
        if err is None:
            self.stats.probes["reject_but_succeeded:" + op["bad"]] += 1
            raise Cut("op built to be rejected succeeded: " + op["bad"])
        collect()
        self.stats.probes["rejected:" + op["bad"]] += 1
        if self.on("C19") and before is not None:
            self.compare_snap(before, op, err)
        return "rejected:" + err


# ---- generation -----------------------------------------------------------------------------------

STR = ["x", "y", "q", ""]


class Gen:
    def __init__(self, w: World, rng: Rng):
        self.w = w
        self.rng = rng
        self.cfg = w.cfg
        self.exclude: set[int] = set()

    def r(self, n: str):
        return self.rng.s(n)

    def out(self) -> str:
        return f"n{self.w.step_no + 1}"

    def tree_of(self, o: Any) -> set[int]:
        """ids of every object of the tree that contains o (never offered as a new child of o's tree)."""
        root = o
        hops = 0
        pos = self.w.positions()
        while id(root) in pos and hops < 100:
            root = pos[id(root)][0][0]
            hops += 1
        return {id(x) for x in walk(root)} | {id(o)}

    def free_nodes(self, allow_detached: bool = True) -> list[str]:
        """Handles whose node sits at no position (attached roots and detached nodes) and is not retired."""
        pos = self.w.positions()
        out = []
        seen: set[int] = set()
        for h, o in self.w.handles.items():
            if id(o) in pos or self.w.is_retired(o) or id(o) in seen:
                continue
            seen.add(id(o))
            if o.detached and not allow_detached:
                continue
            out.append(h)
        return out

    def clean(self, o: Any) -> bool:
        """No stale (retired) node inside: attaching such a holder would revive a shallow copy that shares its
        children with its replacement (one object at two positions)."""
        return not any(self.w.is_retired(x) for x in walk(o))

    def usable_child(self, h: str) -> bool:
        o = self.w.handles[h]
        if not self.clean(o):
            return False
        if o.detached:
            return self.w.attachable(o)
        return o.is_attached_root

    def spec(self, depth: int, allowed: tuple[str, ...] = ("any",), used: set[str] | None = None) -> dict[str, Any]:
        r = self.r("spec")
        used = used if used is not None else set()
        if allowed == ("LLeaf",):
            cls = "LLeaf"
        elif depth <= 0 or r.random() < 0.4:
            cls = r.choice(["LLeaf", "LLeaf", "LLeafB", "LBlock"] if self.cfg.get("falsy") else ["LLeaf", "LLeaf", "LLeafB"])
        else:
            cls = r.choice((["LInner", "LInner", "LReq", "LBlock"] if self.cfg.get("falsy") else ["LInner", "LInner", "LReq"]) + (["LAny"] if self.cfg.get("any_field") else []))
        if allowed == ("any",) and r.random() < self.cfg["p_ref"]:
            cands = [h for h in self.free_nodes() if h not in used and id(self.w.handles[h]) not in self.exclude and self.usable_child(h)]
            if cands:
                h = r.choice(cands)
                used.add(h)
                return {"ref": {"h": h, "path": []}}
        p: dict[str, Any] = {}
        ch: dict[str, Any] = {}
        if cls in ("LLeaf", "LLeafB"):
            p["v"] = r.choice(self.cfg["strs"])
            if cls == "LLeaf" and r.random() < 0.3:
                p["note"] = r.choice(STR)
        elif cls == "LInner":
            p["tag"] = r.choice(self.cfg["strs"])
            free_ids = [i for i in ("", "0", "n1", "x y") if i not in self.__dict__.setdefault("used_ids", set())]
            if free_ids and r.random() < 0.08:
                # ids are arbitrary user strings: an explicit one (each at most once per run), the empty string included
                self.used_ids.add(free_ids[0])
                explicit_id = free_ids[0]
            else:
                explicit_id = None
            if r.random() < 0.6:
                ch["one"] = self.spec(depth - 1, used=used)
            ch["items"] = [self.spec(depth - 1, used=used) for _ in range(r.choice([0, 0, 1, 2, 3]))]
            ch["lst"] = [self.spec(depth - 1, used=used) for _ in range(r.choice([0, 0, 1, 2]))]
            if r.random() < 0.3:
                ch["only_leaf"] = self.spec(0, ("LLeaf",), used=used)
        elif cls == "LAny":
            p["tag"] = r.choice(self.cfg["strs"])
            if r.random() < 0.85:
                ch["payload"] = self.spec(depth - 1, used=used)
            ch["items"] = [self.spec(depth - 1, used=used) for _ in range(r.choice([0, 0, 1, 2]))]
        elif cls == "LBlock":
            # empty (falsy) most of the time when it is a leaf position
            n = 0 if depth <= 0 or r.random() < 0.5 else r.choice([1, 2])
            ch["kids"] = [self.spec(depth - 1, used=used) for _ in range(n)]
        else:
            p["tag"] = r.choice(self.cfg["strs"])
            ch["req"] = self.spec(depth - 1, used=used)
        out = {"c": cls, "p": p, "ch": ch, "o": r.choice(self.cfg["origins"])}
        if cls == "LInner" and explicit_id is not None:
            out["id"] = explicit_id
        return out

    def pick_ref(self, pred=None, root_bias: float = 0.5) -> dict[str, Any] | None:  # noqa: ANN001
        r = self.r("pick")
        names = [h for h, o in self.w.handles.items() if not self.w.is_retired(o)]
        r.shuffle(names)
        for h in names:
            o = self.w.handles[h]
            path: list[list[Any]] = []
            while r.random() > root_bias:
                ch = children_of(o)
                if not ch:
                    break
                f, i, o = r.choice(ch)
                path.append([f, i])
            if pred is None or pred(o):
                return {"h": h, "path": path}
        return None

    def start_stale_cid_script(self) -> bool:
        """r.detach(only_self) -> a change below r (which cannot reach the detached r: its content id is now out of
        date, legitimately) -> a REJECTED operation that would have attached r, the rejection arising at a sibling
        that is looked at after r's subtree."""
        w = self.w
        r = self.r("scscript")
        roots = [h for h, o in w.handles.items() if not w.is_retired(o) and o.is_attached_root and self.clean(o) and 3 <= len(walk(o)) <= 12]
        r.shuffle(roots)
        for h in roots:
            root = w.handles[h]
            paths = []
            for f, i, m in children_of(root):
                # a GRANDchild: its replace() updates its (still attached) parent m, and stops there -- r is detached
                for f2, i2, c in children_of(m):
                    if L.PROP_FIELDS[cname(c)] and not c.detached:
                        paths.append(([[f, i], [f2, i2]], c))
            if not paths:
                continue
            path, c = r.choice(paths)
            prop = L.PROP_FIELDS[cname(c)][0][0]
            newv = r.choice([v for v in STR + ["zz"] if v != getattr(c, prop)])
            out = self.out()

            def reject() -> dict[str, Any] | None:
                if h not in w.handles or not w.handles[h].detached:
                    return None
                bad = self.pick_ref(lambda o: (not o.detached) and o.parent is not None and not any(x is o for x in walk(w.handles[h])), root_bias=0.3)
                if bad is None:
                    return None
                kids = [{"ref": {"h": h, "path": []}}] + self.fresh_children(r.choice([0, 1])) + [{"ref": bad}]
                return {"op": "reject", "act": "new", "spec": {"c": "LInner", "p": {"tag": "sc"}, "ch": {r.choice(["items", "lst"]): kids}, "o": "no"}, "bad": "ctor_stale_detached_child_then_collision"}

            self.queue = [
                lambda: {"op": "detach", "n": {"h": h, "path": []}, "only_self": True} if h in w.handles else None,
                lambda: {"op": "replace", "n": {"h": h, "path": path}, "ch": {prop: {"v": newv}}, "out": out, "keep_stale": False} if h in w.handles else None,
                reject,
            ]
            w.stats.probes["stale_content_id_script_started"] += 1
            return True
        return False

    def next_op(self) -> dict[str, Any]:
        w = self.w
        r = self.r("sched")
        if not getattr(self, "queue", None) and self.cfg["weights"].get("reject", 0) > 0 and w.handles and r.random() < 0.05:
            self.start_stale_cid_script()
        while getattr(self, "queue", None):
            op = self.queue.pop(0)()
            if op is None:
                self.queue = []
                break
            op["step"] = w.step_no + 1
            op["actor"] = "scripted"
            return op
        if not w.handles:
            kind = "new"
        else:
            kind = weighted(r, sorted(self.cfg["weights"].items()))
            if len(w.reach()) > self.cfg["max_live"]:
                kind = r.choice(["drop", "drop", kind])
        self.exclude = set()
        op = getattr(self, "g_" + kind)()
        if op is None:
            self.exclude = set()
            op = self.g_new()
        op["step"] = w.step_no + 1
        op["actor"] = r.choice(self.cfg["actors"])
        return op

    def g_new(self) -> dict[str, Any]:
        r = self.r("new")
        spec = self.spec(r.choice([0, 1, 2, 2, 3]))
        if "ref" in spec:
            save = self.cfg["p_ref"]
            self.cfg["p_ref"] = 0.0
            spec = self.spec(0)
            self.cfg["p_ref"] = save
        x = r.random()
        if x < 0.1:
            spec["create_detached"] = True
            # a detached holder must not capture attached roots in this machine (they would stay roots inside it)
            if _has_ref(spec):
                spec = self.fresh_children(1)[0]
                spec["create_detached"] = True
        elif x < 0.18:
            spec["create_as_duplicate"] = True
        elif x < 0.24:
            spec["id"] = "explicit-" + str(self.w.step_no)
        return {"op": "new", "spec": spec, "out": self.out()}

    def g_twin(self) -> dict[str, Any] | None:
        ref = self.pick_ref()
        if ref is None:
            return None
        o = self.w.node_at(ref)
        if len(walk(o)) > 10:
            return None
        return {"op": "new", "spec": spec_of(o), "out": self.out()}

    def g_set_config(self) -> dict[str, Any] | None:
        return {"op": "set_config", "digest": self.r("cfg").choice([4, 8, 16, 32])}

    def g_drop(self) -> dict[str, Any] | None:
        names = [h for h in self.w.handles if self.w.droppable(h)]
        return {"op": "drop", "h": self.r("drop").choice(names)} if names else None

    def g_attach(self) -> dict[str, Any] | None:
        ref = self.pick_ref(lambda o: o.detached and self.w.is_free(o) and self.w.attachable(o) and self.clean(o), root_bias=0.9)
        return None if ref is None else {"op": "attach", "n": ref}

    def g_detach(self) -> dict[str, Any] | None:
        r = self.r("detach")
        ref = self.pick_ref(root_bias=r.choice([0.9, 0.5]))
        return None if ref is None else {"op": "detach", "n": ref, "only_self": r.random() < 0.45}

    def gen_changes(self, o: Any) -> dict[str, Any]:
        r = self.r("changes")
        cls = cname(o)
        ch: dict[str, Any] = {}
        used: set[str] = set()
        opts = [p for p, _c in L.PROP_FIELDS[cls]] + [f for f, _k, _a in L.CHILD_FIELDS[cls]] + ["origin"]
        for name in r.sample(opts, r.choice([1, 1, 2])):
            if name == "origin":
                ch[name] = {"o": r.choice(self.cfg["origins"])}
            elif any(name == p for p, _c in L.PROP_FIELDS[cls]):
                ch[name] = {"v": r.choice(self.cfg["strs"])}
            else:
                kind, allowed = next((k, a) for f, k, a in L.CHILD_FIELDS[cls] if f == name)
                if kind == "single":
                    if (cls, name) in L.OPTIONAL and r.random() < 0.3:
                        ch[name] = {"spec": None}
                    else:
                        ch[name] = {"spec": self.spec(1, allowed, used=used)}
                else:
                    ch[name] = {"specs": [self.spec(1, used=used) for _ in range(r.choice([0, 1, 2]))], "kind": kind}
        return ch

    def g_replace(self) -> dict[str, Any] | None:
        r = self.r("replace")
        ref = self.pick_ref(lambda o: o.detached is False or (self.w.is_free(o)), root_bias=0.4)
        if ref is None:
            return None
        o = self.w.node_at(ref)
        if o.detached:
            # a detached receiver yields a detached copy over the same children: only leaves keep the history admissible
            if children_of(o):
                return None
        self.exclude = self.tree_of(o)
        return {"op": "replace", "n": ref, "ch": self.gen_changes(o), "out": self.out(), "keep_stale": r.random() < 0.45}

    def g_replace_with(self) -> dict[str, Any] | None:
        r = self.r("rw")
        ref = self.pick_ref(lambda o: not o.detached, root_bias=0.35)
        if ref is None:
            return None
        o = self.w.node_at(ref)
        p = o.parent
        self.exclude = self.tree_of(o)
        new: Any
        if p is not None:
            fname = o.parent_field.name
            kind, allowed = next((k, a) for f, k, a in L.CHILD_FIELDS[cname(p)] if f == fname)
            optional = kind != "single" or (cname(p), fname) in L.OPTIONAL
            if optional and r.random() < 0.3:
                new = None
            else:
                new = self.spec(r.choice([0, 1]), allowed)
        else:
            new = None if r.random() < 0.15 else self.spec(r.choice([0, 1, 2]))
        if new is not None and "ref" not in new and r.random() < 0.5:
            new["create_detached"] = True
            if _has_ref(new):
                new = self.spec(0, ("LLeaf",) if p is not None and allowed == ("LLeaf",) else ("any",))
                if "ref" in new:
                    return None
        return {"op": "replace_with", "n": ref, "new": new, "out": self.out(), "keep_stale": r.random() < 0.1}

    def g_stale(self) -> dict[str, Any] | None:
        r = self.r("stale")
        names = [h for h, o in self.w.handles.items() if self.w.is_retired(o)]
        if not names:
            return None
        return {"op": "stale", "h": r.choice(names), "what": r.choice(["detach", "detach_self", "clone", "replace", "replace"]), "value": r.choice(STR)}

    def g_duplicate(self) -> dict[str, Any] | None:
        r = self.r("dup")
        ref = self.pick_ref(root_bias=0.7)
        if ref is None or len(walk(self.w.node_at(ref))) > 12:
            return None
        o = self.w.node_at(ref)
        detached = r.random() < 0.3
        if not detached and any(x.detached for x in walk(o)):
            detached = True
        return {"op": "duplicate", "n": ref, "detached": detached, "out": self.out()}

    def gen_rules(self, o: Any, for_transformer: bool = False) -> dict[str, Any]:
        r = self.r("rules")
        present = sorted({cname(x) for x in walk(o)})
        rules: dict[str, Any] = {}
        for c in r.sample(present, min(len(present), r.choice([1, 1, 2]))):
            k = r.choice(["keep", "rewrite", "rewrite", "fresh", "remove"])
            if k == "rewrite":
                p = r.choice([x for x, _c in L.PROP_FIELDS[c]]) if L.PROP_FIELDS[c] else None
                if p is None:
                    k = "keep"
                else:
                    rules[c] = ["rewrite", p, r.choice(self.cfg["strs"])]
                    continue
            if k == "fresh":
                save = self.cfg["p_ref"]
                self.cfg["p_ref"] = 0.0
                rules[c] = ["fresh", self.spec(0, ("LLeaf",))]
                self.cfg["p_ref"] = save
                continue
            if k == "remove" and c in ("LInner", "LReq"):
                k = "keep"
            rules[c] = k
        return rules

    def removable(self, o: Any, rules: dict[str, Any]) -> bool:
        """No rule removes a node from a required single field (that would be a rejection)."""
        for x in walk(o):
            for f, i, c in children_of(x):
                rule = rules.get(cname(c))
                if rule == "remove" and i is None and (cname(x), f) not in L.OPTIONAL:
                    return False
                if isinstance(rule, list) and rule[0] == "fresh" and f == "only_leaf" and rule[1]["c"] != "LLeaf":
                    return False
        return rules.get(cname(o)) != "remove"

    def g_transform(self) -> dict[str, Any] | None:
        ref = self.pick_ref(lambda o: not o.detached, root_bias=0.7)
        if ref is None:
            return None
        o = self.w.node_at(ref)
        if len(walk(o)) > 14:
            return None
        rules = self.gen_rules(o)
        if not self.removable(o, rules):
            return None
        return {"op": "transform", "n": ref, "rules": rules, "out": self.out()}

    def g_transformer(self) -> dict[str, Any] | None:
        ref = self.pick_ref(lambda o: not o.detached and o.parent is None, root_bias=0.95)
        if ref is None:
            return None
        o = self.w.node_at(ref)
        if len(walk(o)) > 14:
            return None
        rules = self.gen_rules(o, True)
        rules.pop(cname(o), None)
        if not self.removable(o, rules):
            return None
        return {"op": "transformer", "n": ref, "rules": rules, "out": self.out()}

    # ---- rejected ops (C19), rejection point enumerated by the caller
    def g_reject(self) -> dict[str, Any] | None:
        r = self.r("reject")
        kinds = self.cfg["reject_kinds"]
        for _ in range(6):
            kind = r.choice(kinds)
            op = getattr(self, "rj_" + kind)()
            if op is not None:
                op["op"] = "reject"
                op["bad"] = op.get("bad", kind)
                return op
        return None

    def fresh_children(self, n: int) -> list[dict[str, Any]]:
        save = self.cfg["p_ref"]
        self.cfg["p_ref"] = 0.0
        out = [self.spec(self.r("fc").choice([0, 0, 1])) for _ in range(n)]
        self.cfg["p_ref"] = save
        return out

    def attached_subtree_ref(self) -> dict[str, Any] | None:
        return self.pick_ref(lambda o: (not o.detached) and o.parent is not None, root_bias=0.3)

    def free_ref(self, detached: bool | None = None) -> dict[str, Any] | None:
        r = self.r("free")
        c = [h for h in self.free_nodes() if self.usable_child(h) and (detached is None or self.w.handles[h].detached == detached)]
        return {"h": r.choice(c), "path": []} if c else None

    def rj_ctor_parent_collision(self) -> dict[str, Any] | None:
        """Constructor over children where the child at position k is attached to another parent."""
        r = self.r("rj1")
        bad = self.attached_subtree_ref()
        if bad is None:
            return None
        n = r.choice([1, 2, 3, 4])
        k = r.randrange(n)
        kids: list[dict[str, Any]] = self.fresh_children(n)
        # earlier positions: previously detached / attached-root / fresh children (in-flight state to damage)
        for i in range(n):
            if i != k and r.random() < 0.5:
                fr = self.free_ref()
                if fr is not None and all(x.get("ref", {}).get("h") != fr["h"] for x in kids):
                    kids[i] = {"ref": fr}
        kids[k] = {"ref": bad}
        field = r.choice(["items", "lst"])
        spec = {"c": "LInner", "p": {"tag": "rj"}, "ch": {field: kids}, "o": r.choice(self.cfg["origins"])}
        if r.random() < 0.3:
            spec["ch"]["one"] = kids.pop(0) if len(kids) > 1 and k != 0 else self.fresh_children(1)[0]
        return {"act": "new", "spec": spec, "bad": f"ctor_parent_collision", "k": k, "n": n}

    def rj_ctor_nested_collision_clean_sibling(self) -> dict[str, Any] | None:
        """A new node over DETACHED holders: one of them holds (below a detached node visited first) a node that is
        attached elsewhere, and clean detached holders come after / before it -- the collision sits at a grandchild
        and is not the last thing the dry run looks at."""
        r = self.r("rj16")
        bad = self.attached_subtree_ref()
        if bad is None:
            return None
        o = r.choice(self.cfg["origins"])

        def leaf(tag: str) -> dict[str, Any]:
            return {"c": "LLeaf", "p": {"v": tag}, "ch": {}, "o": o, "create_detached": True}

        def holder(tag: str, kids: list[dict[str, Any]]) -> dict[str, Any]:
            return {"c": "LInner", "p": {"tag": tag}, "ch": {r.choice(["items", "lst"]): kids}, "o": o, "create_detached": True}

        inner = [leaf("g"), {"ref": bad}]
        if r.random() < 0.3:
            inner.append(leaf("h"))
        holders = [holder("E", inner)] + [holder(f"F{i}", [leaf(f"f{i}")] if r.random() < 0.8 else []) for i in range(r.choice([1, 1, 2]))]
        if r.random() < 0.3:
            r.shuffle(holders)
        top = {"c": "LInner", "p": {"tag": "D"}, "ch": {"items": holders}, "o": o}
        if r.random() < 0.7:
            return {"act": "new", "spec": top, "bad": "ctor_nested_collision_clean_sibling"}
        ref = self.pick_ref(lambda x: not x.detached and (x.parent is None or x.parent_field.name != "only_leaf"), root_bias=0.5)
        if ref is None or any(x is self.w.node_at(bad) for x in walk(self.w.node_at(ref))):
            return None
        top["create_detached"] = True
        return {"act": "replace_with", "n": ref, "new": top, "bad": "replace_with_nested_collision_clean_sibling"}

    def rj_replace_with_stale_receiver(self) -> dict[str, Any] | None:
        """replace_with on a superseded (detached) object whose id is held by its live successor, the replacement
        being an attached root (or a fresh detached tree)."""
        r = self.r("rj17")
        stale = [h for h, o in self.w.handles.items() if self.w.is_retired(o) and o.detached and AwareASTNode.get_any(o.id) is not None and AwareASTNode.get_any(o.id) is not o]
        if not stale:
            return None
        h = r.choice(stale)
        fr = self.free_ref(detached=False)
        if fr is not None and r.random() < 0.7 and not any(x is self.w.handles[h] for x in walk(self.w.node_at(fr))):
            return {"act": "replace_with", "n": {"h": h, "path": []}, "new": {"ref": fr}, "bad": "replace_with_stale_receiver_attached_root"}
        new = self.fresh_children(1)[0]
        new["create_detached"] = True
        return {"act": "replace_with", "n": {"h": h, "path": []}, "new": new, "bad": "replace_with_stale_receiver_detached_new"}

    def rj_ctor_duplicate_children(self) -> dict[str, Any] | None:
        r = self.r("rj2")
        n = r.choice([2, 3, 4])
        kids = self.fresh_children(n)
        fr = self.free_ref()
        dup = {"ref": fr} if fr is not None and r.random() < 0.7 else None
        if dup is None:
            return None
        i, j = sorted(r.sample(range(n), 2))
        kids[i] = dup
        kids[j] = dup
        return {"act": "new", "spec": {"c": "LInner", "p": {}, "ch": {"items": kids}, "o": "no"}, "bad": "ctor_duplicate_children"}

    def rj_ctor_id_collision(self) -> dict[str, Any] | None:
        ref = self.pick_ref(lambda o: not o.detached)
        if ref is None:
            return None
        o = self.w.node_at(ref)
        kids = self.fresh_children(self.r("rj3").choice([0, 1, 2]))
        fr = self.free_ref()
        if fr is not None:
            kids.append({"ref": fr})
        return {"act": "new", "spec": {"c": "LInner", "p": {}, "ch": {"items": kids}, "o": "no", "id": o.id, "ensure_unique_id": True}, "bad": "ctor_id_collision"}

    def rj_attach_registry_collision(self) -> dict[str, Any] | None:
        """Re-attach a detached tree in which a node's id was meanwhile taken (at some depth)."""
        ref = self.pick_ref(lambda o: o.detached and self.w.is_free(o) and not self.w.attachable(o) and not self.w.is_retired(o), root_bias=0.9)
        if ref is None:
            return None
        o = self.w.node_at(ref)
        depth = 0 if AwareASTNode.get_any(o.id) is not None else 1
        return {"act": "attach", "n": ref, "bad": f"attach_collision_depth{depth}"}

    def rj_replace_forbidden(self) -> dict[str, Any] | None:
        r = self.r("rj5")
        ref = self.pick_ref()
        if ref is None:
            return None
        key = r.choice(["id", "content_id", "original_id", "id_collision_with", "nosuchfield"])
        ch = {key: {"v": "zz"}}
        if r.random() < 0.5:
            ch["origin"] = {"o": "no"}
        return {"act": "replace", "n": ref, "ch": ch, "bad": "replace_forbidden_key"}

    def rj_replace_duplicate_children(self) -> dict[str, Any] | None:
        r = self.r("rj6")
        ref = self.pick_ref(lambda o: cname(o) in ("LInner", "LAny"), root_bias=0.4)
        if ref is None:
            return None
        kids = self.fresh_children(r.choice([1, 2]))
        fr = self.free_ref()
        if fr is None:
            return None
        kids += [{"ref": fr}, {"ref": fr}]
        r.shuffle(kids)
        o = self.w.node_at(ref)
        state = "attached" if not o.detached else "detached"
        return {"act": "replace", "n": ref, "ch": {"items": {"specs": kids, "kind": "tuple"}}, "bad": f"replace_duplicate_children_{state}"}

    def rj_replace_parent_collision(self) -> dict[str, Any] | None:
        r = self.r("rj7")
        ref = self.pick_ref(lambda o: cname(o) in ("LInner", "LAny") and not o.detached, root_bias=0.4)
        bad = self.attached_subtree_ref()
        if ref is None or bad is None:
            return None
        o = self.w.node_at(ref)
        b = self.w.node_at(bad)
        if any(x is b for x in walk(o)) or any(x is o for x in walk(b)):
            return None
        kids = self.fresh_children(r.choice([0, 1, 2]))
        kids.insert(r.randint(0, len(kids)), {"ref": bad})
        if cname(o) == "LAny":
            return {"act": "replace", "n": ref, "ch": {"items": {"specs": kids, "kind": "tuple"}}, "bad": "replace_parent_collision_any_field_receiver"}
        return {"act": "replace", "n": ref, "ch": {"lst": {"specs": kids, "kind": "list"}}, "bad": "replace_parent_collision"}

    def rj_replace_with_parented(self) -> dict[str, Any] | None:
        ref = self.pick_ref(lambda o: not o.detached)
        bad = self.attached_subtree_ref()
        if ref is None or bad is None:
            return None
        if self.w.node_at(ref) is self.w.node_at(bad):
            return None
        return {"act": "replace_with", "n": ref, "new": {"ref": bad}, "bad": "replace_with_parented"}

    def rj_replace_with_wrong_type(self) -> dict[str, Any] | None:
        ref = self.pick_ref(lambda o: o.parent is not None and o.parent_field is not None and o.parent_field.name == "only_leaf")
        if ref is None:
            return None
        return {"act": "replace_with", "n": ref, "new": {"c": "LLeafB", "p": {"v": "w"}, "ch": {}, "o": "no"}, "bad": "replace_with_wrong_type"}

    def rj_replace_with_none_required(self) -> dict[str, Any] | None:
        ref = self.pick_ref(lambda o: o.parent is not None and o.parent_field is not None and o.parent_field.name == "req")
        if ref is None:
            return None
        return {"act": "replace_with", "n": ref, "new": None, "bad": "replace_with_none_required"}

    def rj_replace_with_attach_fails(self) -> dict[str, Any] | None:
        """The replacement is a detached tree whose own attach fails (contains a child attached elsewhere)."""
        r = self.r("rj11")
        if r.random() < 0.35:
            # a DETACHED receiver (free detached subtree, or a stale node kept by the user)
            names = [h for h, x in self.w.handles.items() if x.detached and id(x) not in self.w.positions()]
            ref = {"h": r.choice(names), "path": []} if names else None
        else:
            want_kids = r.random() < 0.5
            ref = self.pick_ref(lambda o: not o.detached and (not want_kids or bool(children_of(o))), root_bias=0.5)
        bad = self.attached_subtree_ref()
        if ref is None or bad is None:
            return None
        o = self.w.node_at(ref)
        b = self.w.node_at(bad)
        if any(x is b for x in walk(o)) or any(x is o for x in walk(b)):
            return None
        if o.parent is not None and o.parent_field.name == "only_leaf":
            return None
        kids = self.fresh_children(r.choice([0, 1, 2]))
        shared = ""
        own = children_of(o)
        if own and r.random() < 0.7:
            # the replacement re-uses (some of) the receiver's own children: Group(kids=(*old.kids, extra))
            take = own[: r.choice([1, len(own)])]
            kids = [{"ref": {"h": ref["h"], "path": list(ref.get("path", [])) + [[f, i]]}} for f, i, _c in take] + kids
            shared = "_shares_children"
        kids.insert(r.randint(0, len(kids)), {"ref": bad})
        new = {"c": "LInner", "p": {"tag": "rwa"}, "ch": {"items": kids}, "o": "no", "create_detached": True}
        state = "detached" if o.detached else "attached"
        return {"act": "replace_with", "n": ref, "new": new, "bad": f"replace_with_attach_fails_{state}_receiver{shared}"}

    def rj_replace_with_own_ancestor(self) -> dict[str, Any] | None:
        """child.replace_with(its own attached root ancestor): pre-checks pass, attaching the replacement fails
        because the receiver sits inside it."""
        r = self.r("rj13")
        names = [h for h, o in self.w.handles.items() if not o.detached and o.parent is None and children_of(o) and not self.w.is_retired(o)]
        if not names:
            return None
        h = r.choice(names)
        root = self.w.handles[h]
        path: list[list[Any]] = []
        o = root
        # only the DIRECT parent: replacing a deeper descendant by its root ancestor is not rejected by the library
        # at all (it builds a cyclic structure and then loops forever) -- an inadmissible history, not a rejection
        depth = 1
        for _ in range(depth):
            ch = [(f, i, c) for f, i, c in children_of(o) if f != "only_leaf"]
            if not ch:
                break
            f, i, o = r.choice(ch)
            path.append([f, i])
        if not path:
            return None
        return {"act": "replace_with", "n": {"h": h, "path": path}, "new": {"ref": {"h": h, "path": []}}, "bad": f"replace_with_own_ancestor_depth{len(path)}"}

    def rj_ctor_shared_two_depths(self) -> dict[str, Any] | None:
        """A constructor over [shared, holder] where the detached holder still references `shared` (an attached root):
        the arrangement is inadmissible; the library may accept it (then the run is cut) or reject it -- if it
        rejects, nothing may have changed."""
        r = self.r("rj15")
        cands = []
        for h, o in self.w.handles.items():
            if o.detached and not self.w.is_retired(o) and self.w.is_free(o) and self.w.attachable(o):
                kids = [c for _f, _i, c in children_of(o) if c.is_attached_root]
                if kids:
                    cands.append(h)
        if not cands:
            return None
        h = r.choice(cands)
        holder = self.w.handles[h]
        choices = [(f, i) for f, i, c in children_of(holder) if c.is_attached_root]
        f, i = r.choice(choices)
        shared = {"ref": {"h": h, "path": [[f, i]]}}
        kids = [shared, {"ref": {"h": h, "path": []}}]
        if r.random() < 0.5:
            kids.insert(r.randint(0, 2), self.fresh_children(1)[0])
        if r.random() < 0.5:
            spec = {"c": "LInner", "p": {"tag": "sh"}, "ch": {"one": kids[0], "items": kids[1:]}, "o": "no"}
        else:
            spec = {"c": "LInner", "p": {"tag": "sh"}, "ch": {"items": kids}, "o": "no"}
        return {"act": "new", "spec": spec, "bad": "ctor_shared_two_depths"}

    def rj_ctor_shared_by_two_holders(self) -> dict[str, Any] | None:
        """A constructor over two fresh detached holders that both hold the same attached root (siblings in the
        subtree being attached)."""
        r = self.r("rj16")
        c = [h for h in self.free_nodes(allow_detached=False) if self.w.handles[h].is_attached_root and self.clean(self.w.handles[h])]
        if not c:
            return None
        shared = {"ref": {"h": r.choice(c), "path": []}}
        def holder(tag: str) -> dict[str, Any]:
            kids = self.fresh_children(r.choice([0, 1]))
            kids.insert(r.randint(0, len(kids)), shared)
            return {"c": "LInner", "p": {"tag": tag}, "ch": {"items": kids}, "o": "no", "create_detached": True}
        kids = [holder("h1"), holder("h2")]
        if r.random() < 0.4:
            kids.insert(1, self.fresh_children(1)[0])
        return {"act": "new", "spec": {"c": "LInner", "p": {"tag": "top"}, "ch": {"lst": kids}, "o": "no"}, "bad": "ctor_shared_by_two_holders"}

    def rj_transform_result_refused(self) -> dict[str, Any] | None:
        """transform() of an attached subtree whose result the final replace_with refuses: wrong type for a
        type-restricted field, or None for a required field."""
        r = self.r("rj14")
        ref = self.pick_ref(lambda o: (not o.detached) and o.parent is not None and o.parent_field is not None and o.parent_field.name in ("only_leaf", "req"), root_bias=0.2)
        if ref is None:
            return None
        o = self.w.node_at(ref)
        if len(walk(o)) > 8:
            return None
        fr = self.free_ref(detached=False)
        if o.parent_field.name == "only_leaf" and fr is not None and r.random() < 0.5 and cname(self.w.node_at(fr)) != "LLeaf" and not any(x is o for x in walk(self.w.node_at(fr))):
            # the visitor hands back a pre-existing ATTACHED root, which the final replace_with refuses
            rules = {cname(o): ["existing", fr]}
            bad = "transform_result_existing_root_wrong_type"
        elif o.parent_field.name == "only_leaf":
            rules = {cname(o): ["fresh", {"c": "LLeafB", "p": {"v": "w"}, "ch": {}, "o": "no"}]}
            bad = "transform_result_wrong_type"
        else:
            rules = {cname(o): "remove"}
            bad = "transform_result_none_required"
        return {"act": "transform", "n": ref, "rules": rules, "bad": bad}

    def rj_transform_rule_uses_library(self) -> dict[str, Any] | None:
        """transform() whose rule calls node.replace(...) on the node it was given and then raises (directly on an
        attached leaf, on a subtree, on a root), or hands back the node wrapped in a copy of itself."""
        r = self.r("rj15")
        ref = self.pick_ref(lambda o: not o.detached, root_bias=0.4)
        if ref is None:
            return None
        o = self.w.node_at(ref)
        if len(walk(o)) > 10:
            return None
        inners = [x for x in walk(o) if cname(x) == "LInner"]
        if inners and r.random() < 0.4:
            return {"act": "transform", "n": ref, "rules": {"LInner": "wrap_self"}, "bad": "transform_result_wraps_itself"}
        withprops = sorted({cname(x) for x in walk(o) if L.PROP_FIELDS[cname(x)]})
        if not withprops:
            return None
        c = r.choice(withprops) if r.random() < 0.6 or not L.PROP_FIELDS[cname(o)] else cname(o)
        return {"act": "transform", "n": ref, "rules": {c: ["mutate_raise", L.PROP_FIELDS[c][0][0], "zz"]}, "bad": "transform_rule_replaces_then_raises" + ("_on_leaf" if not children_of(o) else "")}

    def rj_transform_raises(self) -> dict[str, Any] | None:
        r = self.r("rj12")
        if r.random() < 0.3:
            # a DETACHED tree (visited in place, no protective clone): a failed transform must leave it as it was too
            names = [h for h, x in self.w.handles.items() if x.detached and self.w.is_free(x) and not self.w.is_retired(x) and self.clean(x)]
            full = [h for h in names if all(y.detached for y in walk(self.w.handles[h]))]
            # (a detached root over still-attached children -- detach(only_self=True) -- is a known finding: rarely)
            names = names if r.random() < 0.1 else full
            ref = {"h": r.choice(names), "path": []} if names else None
        else:
            ref = self.pick_ref(lambda o: not o.detached, root_bias=0.7)
        if ref is None:
            return None
        o = self.w.node_at(ref)
        if len(walk(o)) > 12:
            return None
        present = sorted({cname(x) for x in walk(o)})
        rules = {c: "keep" for c in present}
        for c in r.sample(present, min(len(present), 1)):
            if L.PROP_FIELDS[c]:
                rules[c] = ["rewrite", L.PROP_FIELDS[c][0][0], "tr"]
        m = sum(1 for x in walk(o) if cname(x) in rules)
        return {"act": "transform", "n": ref, "rules": rules, "fault": {"site": "lvisit", "k": r.randint(1, max(1, m))}, "bad": "transform_visitor_raises" + (("_detached_tree" if all(y.detached for y in walk(o)) else "_detached_root_attached_children") if o.detached else "")}


def _has_ref(spec: Any) -> bool:
    if not spec:
        return False
    if "ref" in spec:
        return True
    for v in spec.get("ch", {}).values():
        if isinstance(v, list):
            if any(_has_ref(x) for x in v):
                return True
        elif _has_ref(v):
            return True
    return False


def spec_of(o: Any) -> dict[str, Any]:
    cls = cname(o)
    p = {pn: getattr(o, pn) for pn, _c in L.PROP_FIELDS[cls]}
    ch: dict[str, Any] = {}
    for f, kind, _a in L.CHILD_FIELDS[cls]:
        v = getattr(o, f)
        if kind in ("tuple", "list"):
            ch[f] = [spec_of(c) for c in v]
        else:
            ch[f] = None if v is None else spec_of(v)
    return {"c": cls, "p": p, "ch": ch, "o": okey(o.origin)}


REJECT_KINDS = [
    "replace_with_stale_receiver",
    "transform_rule_uses_library",
    "ctor_nested_collision_clean_sibling",
    "ctor_parent_collision",
    "ctor_parent_collision",
    "ctor_duplicate_children",
    "ctor_id_collision",
    "attach_registry_collision",
    "replace_forbidden",
    "replace_duplicate_children",
    "replace_parent_collision",
    "replace_with_parented",
    "replace_with_wrong_type",
    "replace_with_none_required",
    "replace_with_attach_fails",
    "replace_with_own_ancestor",
    "ctor_shared_two_depths",
    "ctor_shared_by_two_holders",
    "transform_result_refused",
    "transform_raises",
]


def make_config(rseed: int, prop: str, tier: str, faults: bool) -> dict[str, Any]:
    rng = Rng(rseed)
    r = rng.s("config")
    weights = {"new": 5, "twin": 1.5, "drop": 1.5, "attach": 2, "detach": 3, "replace": 4, "replace_with": 3, "duplicate": 1.5, "transform": 1.5, "transformer": 1, "stale": 0.8, "set_config": 0.3}
    for k in list(weights):
        if k == "new":
            continue
        x = r.random()
        if x < 0.12:
            weights[k] = 0.0
        elif x < 0.3:
            weights[k] *= 3
    if prop == "C19":
        weights["reject"] = r.choice([3, 5, 8])
    else:
        # rejected operations inside C18 histories: on a library that rejects cleanly they change nothing, so the
        # history is still one of successful operations -- and whatever a rejection leaves behind is met by the
        # structural invariants of the steps that follow
        weights["reject"] = r.choice([0, 0.7, 1.5])
    return {
        "machine": NAME,
        "prop": prop,
        "actors": [f"a{i}" for i in range(r.choice([1, 2, 2]))],
        "steps": r.choice([10, 20, 30, 40]) if tier == "thorough" else r.choice([10, 20, 30]),
        "max_live": r.choice([20, 30, 40]),
        "p_ref": r.choice([0.1, 0.25, 0.4]),
        "strs": r.sample(STR, r.choice([2, 3])),
        "origins": r.sample(["no", "c:a:0-5", "g:a", "x:b:/r"], r.choice([1, 2])),
        "weights": weights,
        "reject_kinds": REJECT_KINDS if r.random() < 0.6 else r.sample(REJECT_KINDS, 4),
        "falsy": r.random() < 0.4,
        "any_field": r.random() < 0.4,
    }


def run(cfg: dict[str, Any], prop: str, rseed: int | None = None, ops: list[dict[str, Any]] | None = None, peer: Any = None) -> dict[str, Any]:
    w = World(cfg, prop)
    violation = None
    cut = None
    try:
        if ops is None:
            assert rseed is not None
            g = Gen(w, Rng(rseed))
            for _ in range(cfg["steps"]):
                w.step(g.next_op())
        else:
            for op in ops:
                w.step(dict(op))
    except Violation as v:
        violation = v.as_dict()
    except Cut as c:
        cut = c.why
    out = w.stats.as_dict()
    out["ops"] = w.trace
    out["violation"] = violation
    out["cut"] = cut
    out["faults_fired"] = dict(FAULTS.fired)
    out["faults_armed"] = dict(FAULTS.armed_count)
    k = w.stats.opkinds
    if prop == "C19":
        out["nontrivial"] = any(p.startswith("rejected:") for p in w.stats.probes)
    else:
        out["nontrivial"] = w.stats.steps >= 5 and (k.get("replace", 0) + k.get("replace_with", 0) + k.get("detach", 0) + k.get("attach", 0)) > 0
    return out
