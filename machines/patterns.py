"""C08: pattern matching semantics; captures are exact objects; results never depend on earlier compiles/matches.

Matcher actors compile pattern texts through the three entry points (NodeMatcher.from_pattern, validate_pattern,
MultiPatternMatcher), recompile, and match, with unrelated compiles interleaved between a matcher's compile and its
use.  Every match is compared with a reference matcher that works on the harness-side pattern AST (it never
parses); every matcher is re-checked at the end of the run against the same nodes.
"""
from __future__ import annotations

import copy
import re
from typing import Any

from simkit.core import FAULTS, HarnessError, RunStats, SkipOp, Violation, fp
from simkit.rng import Rng

import pyoak.config as pcfg
from machines import regworld as RW
from pyoak.match.pattern import MultiPatternMatcher, NodeMatcher, validate_pattern
from pyoak.node import NODE_REGISTRY, ASTNode
from universe import v2 as U

NAME = "patterns"
PROPS = ("C08",)
NEEDS_PEER = ()

FAIL = object()


# ---- pattern AST -> text ------------------------------------------------------------------------


def render(p: dict[str, Any], ws: Any) -> str:
    def sp() -> str:
        return ws.choice(["", " ", " ", "  ", "\n ", "\t"])

    def cap(c: str | None) -> str:
        return f"{sp()}->{sp()}{c}" if c else ""

    def value(v: dict[str, Any]) -> str:
        t = v["t"]
        if t == "re":
            return '"' + v["src"] + '"'
        if t == "none":
            return "None"
        if t == "node":
            return node(v["p"])
        if t == "var":
            return "$" + v["name"]
        raise HarnessError(t)

    def node(n: dict[str, Any]) -> str:
        cls = "*" if n["cls"] == "*" else (sp() + "|" + sp()).join(n["cls"])
        out = "(" + sp() + cls
        for fname, fs in n["fields"]:
            out += " " + sp() + "@" + fname
            if fs["k"] == "val":
                v = fs["v"]
                out += sp() + "=" + sp()
                if v["t"] in ("seq", "empty"):
                    out += "[" + sp()
                    for e in v.get("elems", []):
                        out += value(e["v"]) + cap(e.get("cap")) + " " + sp()
                    if v.get("tail"):
                        out += "*" + cap(v.get("tailcap"))
                    out += sp() + "]"
                else:
                    out += value(v)
            out += cap(fs.get("cap"))
        return out + sp() + ")"

    return node(p)


# ---- reference matcher (Appendix A.3) -------------------------------------------------------------


def is_node(x: Any) -> bool:
    return isinstance(x, ASTNode)


def content_equal(a: Any, b: Any, w: "World") -> bool:
    return is_node(a) and is_node(b) and type(a) is type(b) and w.builder.key(a) == w.builder.key(b)


def ref_value(v: dict[str, Any], val: Any, env: dict[str, Any], w: "World") -> bool:
    t = v["t"]
    if t == "re":
        return re.match(v["src"], str(val)) is not None
    if t == "none":
        return val is None
    if t == "empty":
        return isinstance(val, tuple) and len(val) == 0
    if t == "node":
        return ref_node(v["p"], val, env, w)
    if t == "var":
        if v["name"] not in env:
            raise HarnessError("var before capture at match time: generator bug")
        cv = env[v["name"]]
        if is_node(cv):
            ce = content_equal(cv, val, w)
            if ce and cv is not val and not (cv == val):
                w.stats.probes["var_content_equal_but_not_eq"] += 1
            return ce
        return bool(cv == val)
    if t == "seq":
        if not isinstance(val, tuple):
            return False
        n = len(v["elems"])
        if v.get("tail"):
            if len(val) < n:
                return False
        elif len(val) != n:
            return False
        for i, e in enumerate(v["elems"]):
            if not ref_value(e["v"], val[i], env, w):
                return False
            if e.get("cap"):
                env[e["cap"]] = val[i]
        if v.get("tail") and v.get("tailcap"):
            env[v["tailcap"]] = tuple(val[n:])
        return True
    raise HarnessError(t)


def ref_node(p: dict[str, Any], x: Any, env: dict[str, Any], w: "World") -> bool:
    if not is_node(x):
        return False
    if p["cls"] != "*" and not isinstance(x, tuple(U.CLS[c] for c in p["cls"])):
        return False
    names = {f.name for f in U.FIELDS[RW.cname(x)]} | {"id", "content_id", "origin"}
    for fname, fs in p["fields"]:
        if fname not in names:
            return False
        val = getattr(x, fname)
        if fs["k"] == "val" and not ref_value(fs["v"], val, env, w):
            return False
        if fs.get("cap"):
            env[fs["cap"]] = val
    return True


def ref_match(p: dict[str, Any], x: Any, w: "World") -> tuple[bool, dict[str, Any]]:
    env: dict[str, Any] = {}
    ok = ref_node(p, x, env, w)
    return (True, env) if ok else (False, {})


def same_capture(a: Any, b: Any) -> bool:
    if isinstance(a, tuple) and isinstance(b, tuple):
        return len(a) == len(b) and all(x is y for x, y in zip(a, b))
    if a is b:
        return True
    # scalars may be equal without being the same object (ints/strs)
    return not is_node(a) and not is_node(b) and not isinstance(a, tuple) and type(a) is type(b) and a == b


def features(p: dict[str, Any]) -> set[str]:
    out: set[str] = set()

    def val(v: dict[str, Any]) -> None:
        out.add(v["t"])
        if v["t"] == "node":
            node(v["p"])
        if v["t"] == "seq":
            out.add("seq-tail" if v.get("tail") else "seq-exact")
            if v.get("tailcap"):
                out.add("tail-capture")
            if not v["elems"] and v.get("tail"):
                out.add("seq-only-tail")
            for e in v["elems"]:
                val(e["v"])
                if e.get("cap"):
                    out.add("elem-capture")

    def node(n: dict[str, Any]) -> None:
        if n["cls"] == "*":
            out.add("any-class")
        elif len(n["cls"]) > 1:
            out.add("alternatives")
        for _f, fs in n["fields"]:
            if fs["k"] == "exists":
                out.add("any-value-capture" if fs.get("cap") else "any-value")
            else:
                val(fs["v"])
                if fs.get("cap"):
                    out.add("capture-on-" + fs["v"]["t"] + ("-tail" if fs["v"].get("tail") else ""))

    node(p)
    return out


# ---- world ---------------------------------------------------------------------------------------


class World:
    def __init__(self, cfg: dict[str, Any], prop: str):
        self.cfg = cfg
        self.prop = prop
        self.stats = RunStats()
        self.trace: list[dict[str, Any]] = []
        self.step_no = 0
        pcfg.ID_DIGEST_SIZE = 8
        pcfg.RUNTIME_TYPE_CHECK = False
        FAULTS.disarm()
        if len(NODE_REGISTRY) != 0:
            raise HarnessError("registry not pristine")
        self.builder = RW.World({"digest": 8, "rtc": False, "gc": "exact"}, "none")
        self.nodes: dict[str, Any] = {}
        self.matchers: dict[str, dict[str, Any]] = {}  # name -> {m, ast, text, how}
        self.multis: dict[str, dict[str, Any]] = {}
        self.checked: list[tuple[str, str]] = []  # (matcher, node) pairs checked during the run

    def viol(self, oracle: str, sig: str, message: str, **facts: Any) -> Violation:
        return Violation(self.prop, oracle, sig, message, {"step": self.step_no, **facts})

    def step(self, op: dict[str, Any]) -> None:
        self.step_no = op.get("step", self.step_no + 1)
        fn = getattr(self, "op_" + op["op"])
        self.trace.append(op)
        try:
            outcome = fn(op)
        except SkipOp:
            self.trace.pop()
            self.stats.skipped += 1
            return
        self.stats.note_step(op.get("actor", "m0"), op["op"], outcome)
        self.stats.states.add(fp(sorted(self.matchers), len(self.multis), op["op"], outcome))

    def op_build(self, op: dict[str, Any]) -> str:
        o = self.builder.build(op["spec"])
        self.nodes[op["out"]] = o
        self.builder.put(op["out"], "node", o, "m0")
        self.builder.discover()
        return "ok"

    def node_at(self, ref: dict[str, Any]) -> Any:
        return self.builder.node_at(ref)

    def op_derive(self, op: dict[str, Any]) -> str:
        """A new tree that keeps all but one child object of an existing one (dataclasses.replace): the same child
        objects are then reachable under different siblings."""
        import dataclasses

        base = self.node_at(op["n"])
        kw = {}
        for fname, sub in op["ch"].items():
            if isinstance(sub, list):
                kw[fname] = tuple(self.builder.build(x) for x in sub)
            else:
                kw[fname] = None if sub is None else self.builder.build(sub)
        try:
            o = dataclasses.replace(base, **kw)
        except Exception as e:  # noqa: BLE001
            raise SkipOp(f"derive failed {e}") from None
        self.nodes[op["out"]] = o
        self.builder.put(op["out"], "node", o, "m0")
        self.builder.discover()
        return "ok"

    def op_define_late(self, op: dict[str, Any]) -> str:
        """the class named Late comes into existence now (its name was unknown to every compile so far)"""
        if "Late" in U.CLS:
            raise SkipOp("defined")
        U.define_late()
        self.stats.probes["class_defined_mid_run"] += 1
        return "ok"

    def op_replace_nc(self, op: dict[str, Any]) -> str:
        """ASTNode.replace changing only a non-comparable property: the result is another object under the SAME id"""
        x = self.node_at(op["n"])
        try:
            y = x.replace(**{op["field"]: op["value"]})
        except Exception as e:  # noqa: BLE001
            raise SkipOp(f"replace failed {e}") from None
        if y.id != x.id:
            raise SkipOp("id not kept")
        self.nodes[op["out"]] = y
        self.builder.put(op["out"], "node", y, "m0")
        self.builder.discover()
        self.stats.probes["two_objects_one_id"] += 1
        return "ok"

    def op_compile(self, op: dict[str, Any]) -> str:
        text, how = op["text"], op["how"]
        if how == "validate":
            ok, msg = validate_pattern(text)
            if not ok:
                raise self.viol("C08.0 well-formed-pattern-rejected", f"C08.0:validate:{self.featsig(op['ast'])}", f"validate_pattern rejected a well-formed pattern: {msg!r}: {text!r}", text=text)
            return "ok"
        if how == "from_pattern":
            m, msg = NodeMatcher.from_pattern(text)
            if m is None:
                raise self.viol("C08.0 well-formed-pattern-rejected", f"C08.0:from_pattern:{self.featsig(op['ast'])}", f"from_pattern rejected a well-formed pattern: {msg!r}: {text!r}", text=text)
            self.matchers[op["out"]] = {"m": m, "ast": op["ast"], "text": text, "cached": msg == "Cached matcher"}
            if msg == "Cached matcher":
                self.stats.probes["compiled_from_cache"] += 1
            if op.get("respaced"):
                self.stats.probes["near_duplicate_text_compiled"] += 1
            return "ok"
        raise HarnessError(how)

    def featsig(self, ast: dict[str, Any]) -> str:
        f = features(ast)
        for k in ("seq-only-tail", "capture-on-seq-tail", "tail-capture", "capture-on-seq", "any-value-capture"):
            if k in f:
                return k
        return "other"

    def op_bad_compile(self, op: dict[str, Any]) -> str:
        """An ill-formed text tried through one of the entry points: only a perturbation of the history (C17 is not
        claimed): whatever the verdict, later well-formed compiles and matches must not be affected."""
        text, how = op["text"], op["how"]
        try:
            if how == "validate":
                ok, _msg = validate_pattern(text)
            elif how == "from_pattern":
                m, _msg = NodeMatcher.from_pattern(text)
                ok = m is not None
            else:
                try:
                    MultiPatternMatcher([("bad", text)])
                    ok = True
                except Exception:  # noqa: BLE001
                    ok = False
        except Exception as e:  # noqa: BLE001
            self.stats.probes["bad_compile_raised:" + type(e).__name__] += 1
            return "raised"
        self.stats.probes["bad_compile_" + ("accepted" if ok else "rejected")] += 1
        return "rejected" if not ok else "accepted"

    def op_multi(self, op: dict[str, Any]) -> str:
        try:
            mm = MultiPatternMatcher([(n, t) for n, t, _a in op["rules"]])
        except Exception as e:  # noqa: BLE001
            sig = "|".join(sorted({self.featsig(a) for _n, _t, a in op["rules"]}))
            raise self.viol("C08.0 well-formed-pattern-rejected", f"C08.0:multi:{sig}", f"MultiPatternMatcher rejected well-formed patterns: {e}") from None
        self.multis[op["out"]] = {"m": mm, "rules": {n: a for n, _t, a in op["rules"]}, "order": [n for n, _t, _a in op["rules"]]}
        return "ok"

    def judge(self, ast: dict[str, Any], x: Any, got: tuple[bool, Any], when: str, text: str) -> None:
        want_ok, want_env = ref_match(ast, x, self)
        ok, env = got
        feats = features(ast)
        if bool(ok) != want_ok:
            kind = "accepted" if ok else "rejected"
            hint = self.hint(ast, x, feats)
            raise self.viol(
                "C08.1 verdict",
                f"C08.1:{kind}:{hint}:{when}",
                f"pattern {text!r} {kind} a {RW.cname(x)} that the documented semantics {'reject' if ok else 'accept'} ({when})",
                text=text,
                node=RW.spec_of(x),
            )
        if not want_ok:
            if dict(env) != {}:
                raise self.viol("C08.2 captures-on-failure", f"C08.2:{when}", f"failed match returned captures {sorted(env)}", text=text)
            self.stats.probes["match_negative"] += 1
            return
        self.stats.probes["match_positive"] += 1
        if set(env) != set(want_env):
            missing = sorted(set(want_env) - set(env))
            extra = sorted(set(env) - set(want_env))
            raise self.viol(
                "C08.3 capture-names",
                f"C08.3:{'missing' if missing else 'extra'}:{self.caphint(ast, missing or extra)}:{when}",
                f"pattern {text!r}: captures {sorted(env)} instead of {sorted(want_env)} ({when})",
                text=text,
                node=RW.spec_of(x),
            )
        for k in want_env:
            if not same_capture(env[k], want_env[k]):
                raise self.viol(
                    "C08.4 capture-object",
                    f"C08.4:{self.caphint(ast, [k])}:{when}",
                    f"pattern {text!r}: capture {k} is not the very object matched ({when})",
                    text=text,
                )
        if want_env:
            self.stats.probes["captures_checked"] += 1

    def caphint(self, ast: dict[str, Any], names: list[str]) -> str:
        kinds: set[str] = set()

        def val(v: dict[str, Any]) -> None:
            if v["t"] == "node":
                node(v["p"])
            if v["t"] == "seq":
                if v.get("tailcap") in names:
                    kinds.add("tail")
                for e in v["elems"]:
                    if e.get("cap") in names:
                        kinds.add("element")
                    val(e["v"])

        def node(n: dict[str, Any]) -> None:
            for _f, fs in n["fields"]:
                if fs.get("cap") in names:
                    kinds.add("any-value" if fs["k"] == "exists" else "field-" + fs["v"]["t"])
                if fs["k"] == "val":
                    val(fs["v"])

        node(ast)
        return "+".join(sorted(kinds)) or "?"

    def hint(self, ast: dict[str, Any], x: Any, feats: set[str]) -> str:
        """Coarse reason class, for signatures: which feature of the pattern is likely involved."""
        for k in ("seq-tail", "seq-exact", "var", "re", "alternatives", "any-class", "none", "empty", "node"):
            if k in feats:
                return k
        return "class"

    def op_match(self, op: dict[str, Any]) -> str:
        mi = self.matchers.get(op["m"])
        if mi is None:
            raise SkipOp("no matcher")
        x = self.node_at(op["n"])
        try:
            got = mi["m"].match(x)
        except Exception as e:  # noqa: BLE001
            raise self.viol("C08.5 match-raised", f"C08.5:{type(e).__name__}:{self.hint(mi['ast'], x, features(mi['ast']))}", f"match of {mi['text']!r} raised {type(e).__name__}: {e}", text=mi["text"]) from None
        self.judge(mi["ast"], x, got, "when issued", mi["text"])
        self.checked.append((op["m"], fp(op["n"])))
        self.last = (op["m"], op["n"])
        return "ok:" + str(bool(got[0]))

    def op_multimatch(self, op: dict[str, Any]) -> str:
        mu = self.multis.get(op["m"])
        if mu is None:
            raise SkipOp("no multi")
        x = self.node_at(op["n"])
        rules = op.get("rules")
        order = rules if rules is not None else mu["order"]
        try:
            got = mu["m"].match(x, rules)
        except Exception as e:  # noqa: BLE001
            raise self.viol("C08.5 match-raised", f"C08.5:multi:{type(e).__name__}", f"MultiPatternMatcher.match raised {type(e).__name__}: {e}") from None
        want = None
        for name in order:
            ok, env = ref_match(mu["rules"][name], x, self)
            if ok:
                want = (name, env)
                break
        if (got is None) != (want is None) or (got is not None and got[0] != want[0]):
            raise self.viol(
                "C08.6 multi-first-matching-rule",
                "C08.6:" + ("none" if got is None else "wrong-rule" if want is not None else "spurious"),
                f"MultiPatternMatcher returned {got[0] if got else None}, the first matching rule in the given order is {want[0] if want else None}",
            )
        if got is not None:
            env = got[1]
            if set(env) != set(want[1]):
                missing = sorted(set(want[1]) - set(env))
                raise self.viol(
                    "C08.3 capture-names",
                    f"C08.3:{'missing' if missing else 'extra'}:{self.caphint(mu['rules'][got[0]], missing or sorted(set(env) - set(want[1])))}:multi",
                    f"rule {got[0]}: captures {sorted(env)} instead of {sorted(want[1])}",
                )
            for k in want[1]:
                if not same_capture(env[k], want[1][k]):
                    raise self.viol("C08.4 capture-object", f"C08.4:{self.caphint(mu['rules'][got[0]], [k])}:multi", f"rule {got[0]}: capture {k} is not the very object matched")
            self.stats.probes["multi_positive"] += 1
        else:
            self.stats.probes["multi_negative"] += 1
        return "ok"

    def op_recheck(self, op: dict[str, Any]) -> str:
        """End of run: every matcher against the nodes again (late corruption of an early matcher)."""
        for name, mi in self.matchers.items():
            for nname in list(self.nodes)[:12]:
                x = self.nodes[nname]
                for y in RW.walk(x)[:5]:
                    try:
                        got = mi["m"].match(y)
                    except Exception as e:  # noqa: BLE001
                        raise self.viol("C08.5 match-raised", f"C08.5:{type(e).__name__}:recheck", f"match of {mi['text']!r} raised {type(e).__name__}: {e}") from None
                    self.judge(mi["ast"], y, got, "re-check at end of run", mi["text"])
        self.stats.probes["recheck"] += 1
        return "ok"


# ---- generation -----------------------------------------------------------------------------------

# (the last entries carry regex escapes that a JSON-style unescaping of the quoted text would change: \b, \\, \d ...)
REGEX_POOL = ["qz?", "xy*", "x{0,2}q", "10?", "tx?rue", "Tr?ue", "No?ne", "x\\b", "\\bq", "q\\b", "\\d+", "\\w+$", "\\s*x", "a\\\\b", "[^\\\\]+$", "(x)\\1", "\\.", ".*", "x", "q", "[a-z]+", "1", "[0-9]+$", "", "L+A$", "^q", ".", "None", "\\(", "é", "a b", "a  b", "a\tb", ".* x", ".*  x", "q .*", "a.c", ".+c", "x.*y", "line.break"]


class Gen:
    def __init__(self, w: World, rng: Rng):
        self.w = w
        self.rng = rng
        self.rwg = RW.Gen(w.builder, rng)
        self.ncap = 0

    def r(self, n: str):
        return self.rng.s(n)

    def newcap(self) -> str:
        self.ncap += 1
        return "c" + "abcdefghij"[self.ncap % 10] + ("_" + "klmnop"[(self.ncap // 10) % 6] if self.ncap >= 10 else "")

    def regex_for(self, val: Any) -> str:
        if isinstance(val, (int, float)) and self.r("re").random() < 0.3:
            # end-anchored numeric regexes: the same text is then met by ==-equal values that print differently
            # (1, 1.0, True)
            return self.r("re").choice(["[0-9]+$", "1$", "[01]$", "0$", "-?[0-9]+$", "True", "1"])
        if isinstance(val, str) and val and "\n" not in val and self.r("re").random() < 0.15:
            # the value followed by an OPTIONAL extra character / with its last character made optional or repeated
            q = self.r("re").choice(["?", "*", "{0,2}"])
            body = re.escape(val).replace('"', ".")
            return body + self.r("re").choice(["z", "0", "_"]) + q if self.r("re").random() < 0.6 or len(val) < 2 else re.escape(val[:-1]).replace('"', ".") + re.escape(val[-1]).replace('"', ".") + q + ("" if q != "?" else re.escape(val[-1]).replace('"', "."))
        return self._regex_for(val)

    def _regex_for(self, val: Any) -> str:
        r = self.r("regex")
        s = str(val)
        safe = re.escape(s).replace('"', ".").replace("\n", ".")
        choice = r.random()
        if "\n" in s or '"' in s:
            return r.choice(REGEX_POOL)
        if (" " in s or "\t" in s) and re.escape(s.replace(" ", "").replace("\t", "")) == s.replace(" ", "").replace("\t", "") and choice < 0.6:
            return s + "$"  # whitespace inside the quotes is significant; keep it unescaped
        if choice < 0.35:
            return safe
        if choice < 0.5:
            cut = safe[: max(1, len(safe) // 2)]
            if (len(cut) - len(cut.rstrip("\\"))) % 2 == 1:
                cut = cut[:-1]
            return cut
        if choice < 0.65 and len(s) > 1:
            tail = re.escape(s[1:]).replace('"', ".")
            return tail  # matches inside, not at the start
        return r.choice(REGEX_POOL)

    def gen_value(self, val: Any, depth: int, caps: list[str]) -> dict[str, Any]:
        """A value spec aimed at (but not guaranteed to match) the object `val`."""
        r = self.r("pval")
        if caps and r.random() < (0.3 if is_node(val) else 0.15):
            return {"t": "var", "name": r.choice(caps)}
        if r.random() < 0.05:
            # a spec of another kind than the value: a sequence / [] / None / nested pattern / regex against a value
            # that is none of these (never a sequence spec against a str: whether a str counts as a sequence is not
            # settled by the statement)
            anynode = {"t": "node", "p": {"cls": "*", "fields": []}}
            opts: list[dict[str, Any]] = [{"t": "none"}, {"t": "empty"}, anynode, {"t": "re", "src": r.choice([".*", "", "\\(", "None", "[A-Z]"])}]
            if not isinstance(val, str):
                opts += [{"t": "seq", "elems": [], "tail": True}, {"t": "seq", "elems": [{"v": anynode}], "tail": r.random() < 0.5}]
            self.w.stats.probes["spec_of_other_kind"] += 1
            return r.choice(opts)
        if is_node(val):
            if depth <= 0 or r.random() < 0.15:
                return {"t": "node", "p": {"cls": "*" if r.random() < 0.5 else [RW.cname(val)], "fields": []}}
            return {"t": "node", "p": self.gen_node(val, depth - 1, caps)}
        if val is None:
            return {"t": "none"} if r.random() < 0.8 else {"t": "re", "src": "None"}
        if isinstance(val, tuple) and all(is_node(e) for e in val):
            if len(val) == 0 and r.random() < 0.6:
                return {"t": "empty"}
            n = len(val)
            k = r.choice([n, n, n, max(0, n - 1), n + 1, 0, 1])
            tail = r.random() < 0.5
            elems = []
            for i in range(k):
                tgt = val[i] if i < n else (val[-1] if n else None)
                e: dict[str, Any] = {"v": self.gen_value(tgt, depth - 1, caps) if tgt is not None else {"t": "node", "p": {"cls": "*", "fields": []}}}
                if r.random() < 0.3:
                    e["cap"] = self.newcap()
                    caps.append(e["cap"])
                if e["v"]["t"] in ("seq", "empty"):  # the grammar has no sequence inside a sequence
                    e["v"] = {"t": "none"}
                elems.append(e)
            if not elems and not tail:
                return {"t": "empty"}
            v: dict[str, Any] = {"t": "seq", "elems": elems, "tail": tail}
            if tail and r.random() < 0.5:
                v["tailcap"] = self.newcap()
                caps.append(v["tailcap"])
            return v
        if isinstance(val, U.Op):
            # a str subclass whose str() ('Op.ADD') differs from its raw characters ('+')
            return {"t": "re", "src": r.choice(["Op\\.ADD", "Op\\.SUB", "[+]", "-", "Op", "\\+", ".*"])}
        if isinstance(val, (str, int)) and not isinstance(val, bool):
            return {"t": "re", "src": self.regex_for(val)}
        return {"t": "re", "src": r.choice([".*", "", "x"])}

    def gen_node(self, x: Any, depth: int, caps: list[str]) -> dict[str, Any]:
        r = self.r("pnode")
        cls = RW.cname(x)
        c = r.random()
        if c < 0.15:
            clsspec: Any = "*"
        elif c < 0.55:
            clsspec = [cls]
        elif c < 0.7:
            clsspec = [r.choice(U.MRO[cls])]
        elif c < 0.9:
            others = r.sample(U.NODE_CLASSES, 2)
            clsspec = others + [cls]
            r.shuffle(clsspec)
        else:
            clsspec = [r.choice(U.NODE_CLASSES)]
        fields = []
        cands = [f for f in U.FIELDS[cls] if f.kind != "prop" or f.vt in ("str", "int", "optint", "op", "float", "bool")]
        r.shuffle(cands)
        kids = [f for f in U.CHILD_FIELDS[cls] if f.kind in ("opt", "child") and is_node(getattr(x, f.name))]
        tkids = [f for f in kids if any(g.kind == "tuple" for g in U.CHILD_FIELDS[RW.cname(getattr(x, f.name))])]
        if len(tkids) >= 2 and r.random() < 0.35:
            # $var bound to a TUPLE (a whole child-sequence field, or the rest of one): compared with ==, which for
            # the nodes inside means equal content AND equal origin
            a, b = r.sample(tkids, 2)
            cap = self.newcap()
            caps.append(cap)
            fa = r.choice([g for g in U.CHILD_FIELDS[RW.cname(getattr(x, a.name))] if g.kind == "tuple"]).name
            fb = r.choice([g for g in U.CHILD_FIELDS[RW.cname(getattr(x, b.name))] if g.kind == "tuple"]).name
            if r.random() < 0.6:
                first = [fa, {"k": "exists", "cap": cap}]
            else:
                first = [fa, {"k": "val", "v": {"t": "seq", "elems": [], "tail": True, "tailcap": cap}}]
            self.w.stats.probes["var_bound_to_tuple"] += 1
            return {
                "cls": clsspec,
                "fields": [
                    [a.name, {"k": "val", "v": {"t": "node", "p": {"cls": "*", "fields": [first]}}}],
                    [b.name, {"k": "val", "v": {"t": "node", "p": {"cls": "*", "fields": [[fb, {"k": "val", "v": {"t": "var", "name": cap}}]]}}}],
                ],
            }
        if len(kids) >= 2 and depth >= 1 and r.random() < 0.3:
            # $var semantics across nesting: capture one child, require a content-equal node somewhere inside a sibling
            a, b = r.sample(kids, 2)
            cap = self.newcap()
            caps.append(cap)
            sib = getattr(x, b.name)
            inner_fields = []
            sub = [f for f in U.CHILD_FIELDS[RW.cname(sib)] if f.kind in ("opt", "child")]
            tup = [f for f in U.CHILD_FIELDS[RW.cname(sib)] if f.kind == "tuple"]
            if sub:
                inner_fields.append([r.choice(sub).name, {"k": "val", "v": {"t": "var", "name": cap}}])
            elif tup:
                inner_fields.append([r.choice(tup).name, {"k": "val", "v": {"t": "seq", "elems": [{"v": {"t": "var", "name": cap}}], "tail": True}}])
            nested = {"cls": "*" if r.random() < 0.5 else [RW.cname(sib)], "fields": inner_fields}
            return {"cls": clsspec, "fields": [[a.name, {"k": "exists", "cap": cap}], [b.name, {"k": "val", "v": {"t": "node", "p": nested}}]]}
        for f in cands[: r.choice([0, 1, 1, 2, 3, 4])]:
            val = getattr(x, f.name)
            fs: dict[str, Any]
            if r.random() < 0.3:
                fs = {"k": "exists"}
            else:
                fs = {"k": "val", "v": self.gen_value(val, depth, caps)}
            fname = f.name
            if r.random() < 0.04:
                fname = "nosuchfield"
            if r.random() < 0.4:
                fs["cap"] = self.newcap()
            fields.append([fname, fs])
            if fs.get("cap"):
                caps.append(fs["cap"])
            if r.random() < 0.12:
                # the same field listed a second time: both specs must hold, both captures are made
                fs2: dict[str, Any] = {"k": "exists"} if r.random() < 0.4 else {"k": "val", "v": self.gen_value(val, depth, caps)}
                if fs2["k"] == "exists" or r.random() < 0.5:
                    fs2["cap"] = self.newcap()
                    caps.append(fs2["cap"])
                if fs2["k"] == "exists":
                    fields.insert(r.randint(0, len(fields)), [fname, fs2])
                else:
                    fields.append([fname, fs2])
        return {"cls": clsspec, "fields": fields}

    def pattern_for(self, x: Any) -> dict[str, Any]:
        return self.gen_node(x, self.r("pd").choice([0, 1, 2, 3]), [])

    def run(self) -> None:
        w = self.w
        r = self.r("seq")
        cfg = w.cfg
        step = 0

        def do(op: dict[str, Any]) -> None:
            nonlocal step
            step += 1
            op["step"] = step
            op.setdefault("actor", r.choice(cfg["actors"]))
            w.step(op)

        w.builder.cfg.update(cfg["build"])
        for i in range(cfg["ntrees"]):
            spec = self.rwg.spec(r.choice([1, 2, 3]))
            if "ref" in spec:
                spec = self.rwg.spec(1)
            do({"op": "build", "spec": spec, "out": f"t{i}"})
            if r.random() < 0.5:
                # a content-equal tree with other origins (for $var) / a near miss
                tw = RW.spec_of(w.nodes[f"t{i}"])
                tw = self.rwg.mutate(tw) if r.random() < 0.6 else tw
                do({"op": "build", "spec": tw, "out": f"t{i}b"})
        # mirror trees: content-equal subtrees with different origins at sibling positions ($var semantics)
        for i in range(r.choice([0, 1, 1, 2])):
            base = RW.spec_of(r.choice(RW.walk(w.nodes[r.choice(list(w.nodes))])[:8]))
            if RW.spec_nodes(base) > 6:
                base = self.rwg.spec(0)
                if "ref" in base:
                    continue
            if r.random() < 0.3:
                # a sequence holder: its twin holds content-equal elements with other origins, its copy ==-equal ones
                base = {"c": r.choice(["Seq", "SeqPlus"]), "p": {}, "ch": {"items": [self.rwg.spec(0, "leaf") for _ in range(r.choice([1, 2]))]}, "o": "no"}
            others = [k for k in U.ORIGIN_KEYS if k != base.get("o")]
            twin = _reorigin(base, r.choice(others))
            near = self.rwg.mutate(base) if r.random() < 0.6 else copy.deepcopy(base)
            if r.random() < 0.5:
                spec = {"c": "Pair", "p": {}, "ch": {"left": base, "lhs": twin, "right": near}, "o": "no"}
            else:
                items = [base, twin, near]
                r.shuffle(items)
                spec = {"c": "Seq", "p": {}, "ch": {"items": items}, "o": "no"}
            do({"op": "build", "spec": spec, "out": f"mirror{i}"})
        # derived trees: same child objects under other siblings (a nested matcher meets one node object again
        # with other captured values)
        for i in range(r.choice([0, 1, 2])):
            cands = [n for n, o in w.nodes.items() if RW.cname(o) in ("Pair", "Mixed", "Seq", "SeqPlus") and RW.children_of(o)]
            if not cands:
                break
            bn = r.choice(cands)
            b = w.nodes[bn]
            cf = [f for f in U.CHILD_FIELDS[RW.cname(b)] if f.kind in ("opt", "child", "tuple")]
            f = r.choice(cf)
            sib = [c for _f, _i, c in RW.children_of(b)]
            src = RW.spec_of(r.choice(sib))
            newc = src if r.random() < 0.6 else self.rwg.mutate(src)
            if f.kind == "tuple":
                cur = [RW.spec_of(c) for c in getattr(b, f.name)]
                ch = {f.name: (cur[:-1] + [newc]) if cur and r.random() < 0.5 else cur + [newc]}
            else:
                ch = {f.name: newc}
            do({"op": "derive", "n": {"h": bn, "path": []}, "ch": ch, "out": f"derived{i}"})
        ws = self.r("ws")
        nm = 0
        pending: list[str] = []
        # script: one nested matcher meets the very same child object twice, with different values captured outside
        # it (first a miss, then -- on a derived tree that keeps that child -- a hit)
        for i in range(r.choice([0, 0, 1])):
            found = None
            for hn, root in w.nodes.items():
                for x in RW.walk(root)[:12]:
                    kids = [f for f in U.CHILD_FIELDS[RW.cname(x)] if f.kind in ("opt", "child") and is_node(getattr(x, f.name))]
                    for b in kids:
                        sib = getattr(x, b.name)
                        subs = [g for g in U.CHILD_FIELDS[RW.cname(sib)] if g.kind in ("opt", "child") and is_node(getattr(sib, g.name))]
                        others = [a for a in kids if a.name != b.name]
                        if subs and others and x is root:
                            found = (hn, x, r.choice(others), b, r.choice(subs))
                            break
                    if found:
                        break
                if found:
                    break
            if not found:
                break
            hn, x, a, b, g = found
            cap = self.newcap()
            ast = {"cls": [RW.cname(x)], "fields": [[a.name, {"k": "exists", "cap": cap}], [b.name, {"k": "val", "v": {"t": "node", "p": {"cls": "*", "fields": [[g.name, {"k": "val", "v": {"t": "var", "name": cap}}]]}}, "cap": self.newcap()}]]}
            nm += 1
            do({"op": "compile", "how": "from_pattern", "text": render(ast, ws), "ast": ast, "out": f"m{nm}"})
            do({"op": "match", "m": f"m{nm}", "n": {"h": hn, "path": []}})
            inner = getattr(getattr(x, b.name), g.name)
            do({"op": "derive", "n": {"h": hn, "path": []}, "ch": {a.name: RW.spec_of(inner)}, "out": f"nested{i}"})
            if f"nested{i}" in w.nodes:
                do({"op": "match", "m": f"m{nm}", "n": {"h": f"nested{i}", "path": []}})
                self.w.stats.probes["same_child_other_capture"] += 1
        # script: two live objects under one id (replace of a non-comparable property) asked one after the other
        if r.random() < 0.25:
            fld = r.choice(["note", "tagged"])
            v1, v2 = r.sample(["n1", "n2", "x", ""], 2)
            do({"op": "build", "spec": {"c": "Meta", "p": {"text": r.choice(["t", "q"]), fld: v1}, "ch": {}, "o": r.choice(cfg["build"]["origins"])}, "out": "nc0"})
            do({"op": "replace_nc", "n": {"h": "nc0", "path": []}, "field": fld, "value": v2, "out": "nc1"})
            if "nc1" in w.nodes:
                a0 = {"cls": ["Meta"], "fields": [[fld, {"k": "val", "v": {"t": "re", "src": re.escape(v1) + "$"}, "cap": self.newcap()}]]}
                a1 = {"cls": ["Meta"], "fields": [["text", {"k": "exists", "cap": self.newcap()}]]}
                nm += 1
                do({"op": "multi", "rules": [["r0", render(a0, ws), a0], ["r1", render(a1, ws), a1]], "out": f"mm{nm}"})
                nm += 1
                do({"op": "compile", "how": "from_pattern", "text": render(a0, ws), "ast": a0, "out": f"m{nm}"})
                seq = ["nc0", "nc1", "nc0"] if r.random() < 0.5 else ["nc1", "nc0", "nc1"]
                for hn in seq:
                    do({"op": "multimatch", "m": f"mm{nm - 1}", "n": {"h": hn, "path": []}, "rules": None})
                for hn in seq:
                    do({"op": "match", "m": f"m{nm}", "n": {"h": hn, "path": []}})
        # script: one regex text met by ==-equal values that print differently (1, 1.0, True), one after the other
        if r.random() < 0.15:
            one = r.choice([1, 0])
            do({"op": "build", "spec": {"c": "Vals", "p": {"s": "s", "i": one, "f": float(one), "flag": bool(one), "g": float(one), "opt": one}, "ch": {}, "o": "no"}, "out": "num0"})
            for src in r.sample(["1$", "0$", "[0-9]+$", "True", "False", "1\\.0", "[01]$", "[0-9]"], 3):
                flds = ["i", "f", "flag", "opt", "g"]
                r.shuffle(flds)
                for fld in flds[: r.choice([2, 3, 5])]:
                    ast = {"cls": ["Vals"], "fields": [[fld, {"k": "val", "v": {"t": "re", "src": src}}]]}
                    nm += 1
                    do({"op": "compile", "how": "from_pattern", "text": render(ast, ws), "ast": ast, "out": f"m{nm}"})
                    do({"op": "match", "m": f"m{nm}", "n": {"h": "num0", "path": []}})
            self.w.stats.probes["one_regex_on_lookalike_values"] += 1
        late_at = r.randrange(cfg["nops"]) if cfg.get("late_class") else -1
        for opi in range(cfg["nops"]):
            if opi == late_at:
                # a class name unknown so far (tried, and refused, through the entry points) becomes a class
                for _j in range(r.choice([0, 1, 2])):
                    do({"op": "bad_compile", "text": r.choice(["(Late)", '(Late @a="x")', "(Seq @items=[(Late) *])", "(* @kid=(Late))"]), "how": r.choice(["from_pattern", "validate", "multi"])})
                do({"op": "define_late"})
                lspec = {"c": "Late", "p": {"a": r.choice(["x", "late", ""])}, "ch": {"kid": self.rwg.spec(0)} if r.random() < 0.6 else {}, "o": "no"}
                if "ref" in lspec["ch"].get("kid", {}):
                    lspec["ch"] = {}
                do({"op": "build", "spec": lspec if r.random() < 0.5 else {"c": "Seq", "p": {}, "ch": {"items": [lspec]}, "o": "no"}, "out": "late"})
                tgt = w.nodes["late"]
                tgt = tgt if RW.cname(tgt) == "Late" else tgt.items[0]
                for how in ("validate", "from_pattern"):
                    ast = self.gen_node(tgt, 1, [])
                    ast["cls"] = r.choice([["Late"], ["Late", "LeafA"], ["LeafB", "Late"]])
                    nm += 1
                    if r.random() < 0.3:
                        ast = {"cls": ["Late"], "fields": []}
                    do({"op": "compile", "how": how, "text": render(ast, ws), "ast": ast, "out": f"m{nm}"})
                    if how == "from_pattern":
                        do({"op": "match", "m": f"m{nm}", "n": {"h": "late", "path": [] if RW.cname(w.nodes["late"]) == "Late" else [["items", 0]]}})
                continue
            kind = r.choice(cfg["mix"])
            names = list(w.nodes)
            if kind == "compile" or not w.matchers:
                tgt = w.nodes[r.choice(names)]
                tgt = r.choice(RW.walk(tgt)[:10])
                ast = self.pattern_for(tgt)
                text = render(ast, ws)
                nm += 1
                how = r.choice(["from_pattern", "from_pattern", "from_pattern", "validate"])
                do({"op": "compile", "how": how, "text": text, "ast": ast, "out": f"m{nm}"})
                if how == "from_pattern":
                    pending.append(f"m{nm}")
            elif kind == "recompile":
                mname = r.choice(list(w.matchers))
                mi = w.matchers[mname]
                nm += 1
                text = mi["text"] if r.random() < 0.5 else render(mi["ast"], ws)
                do({"op": "compile", "how": "from_pattern", "text": text, "ast": mi["ast"], "out": f"m{nm}"})
            elif kind == "bad":
                # an ill-formed pattern that fails in the interpreter AFTER registering captures: unknown class,
                # duplicate capture name, variable before capture -- re-using capture names of the generator
                self.ncap = max(0, self.ncap - r.choice([0, 1, 2]))
                c1, c2 = self.newcap(), self.newcap()
                self.ncap = max(0, self.ncap - 2)
                text = r.choice(
                    [
                        f"(* @a -> {c1} @b=(NoSuchClass))",
                        f"(LeafA @a -> {c1} @b -> {c1})",
                        f"(Pair @left -> {c1} @right=(* @x -> {c2} @y -> {c2}))",
                        f"(Seq @items=[(LeafA) -> {c1} (NoSuchClass)])",
                        f"(* @a=${c1} @b -> {c1})",
                        f"(Color @a -> {c1})",
                        "(LeafA @a=",
                    ]
                )
                do({"op": "bad_compile", "text": text, "how": r.choice(["from_pattern", "validate", "multi"])})
            elif kind == "respace":
                # a near-duplicate text: same pattern, whitespace changed INSIDE a quoted regex (significant there)
                cands = [n for n, mi in w.matchers.items() if _ws_regexes(mi["ast"])]
                if not cands:
                    continue
                mi = w.matchers[r.choice(cands)]
                ast = _respace(mi["ast"], r)
                nm += 1
                do({"op": "compile", "how": "from_pattern", "text": render(ast, ws), "ast": ast, "out": f"m{nm}", "respaced": True})
                pending.insert(0, f"m{nm}")
            elif kind == "multi":
                rules = []
                for j in range(r.choice([1, 2, 3, 4])):
                    tgt = r.choice(RW.walk(w.nodes[r.choice(names)])[:10])
                    ast = self.pattern_for(tgt)
                    rules.append([f"r{j}", render(ast, ws), ast])
                nm += 1
                do({"op": "multi", "rules": rules, "out": f"mm{nm}"})
            elif kind == "multimatch" and w.multis:
                mu = r.choice(list(w.multis))
                order = w.multis[mu]["order"]
                rules = None if r.random() < 0.4 else r.sample(order, r.randint(1, len(order)))
                hn = r.choice(names)
                ref = self.rwg.pick_ref("-", root_bias=0.5) or {"h": hn, "path": []}
                do({"op": "multimatch", "m": mu, "n": ref, "rules": rules})
            else:
                # match: prefer a matcher compiled a while ago (compiles by others lie in between)
                mname = pending.pop(0) if pending and r.random() < 0.6 else r.choice(list(w.matchers))
                ref = self.rwg.pick_ref("-", root_bias=0.4) or {"h": r.choice(names), "path": []}
                do({"op": "match", "m": mname, "n": ref})
        do({"op": "recheck"})


def _regex_nodes(ast: dict[str, Any]) -> list[dict[str, Any]]:
    out: list[dict[str, Any]] = []

    def val(v: dict[str, Any]) -> None:
        if v["t"] == "re":
            out.append(v)
        elif v["t"] == "node":
            node(v["p"])
        elif v["t"] == "seq":
            for e in v["elems"]:
                val(e["v"])

    def node(n: dict[str, Any]) -> None:
        for _f, fs in n["fields"]:
            if fs["k"] == "val":
                val(fs["v"])

    node(ast)
    return out


def _ws_regexes(ast: dict[str, Any]) -> list[dict[str, Any]]:
    return [v for v in _regex_nodes(ast) if re.search(r"(?<!\\)[ \t]", v["src"])]


def _respace(ast: dict[str, Any], r: Any) -> dict[str, Any]:
    import copy

    a = copy.deepcopy(ast)
    v = r.choice(_ws_regexes(a))
    src = v["src"]
    m = re.search(r"(?<!\\)[ \t]+", src)
    run = m.group(0)
    new = r.choice([run + " ", "\t", " "]) if run != " " else r.choice(["  ", "\t"])
    if new == run:
        new = run + " "
    v["src"] = src[: m.start()] + new + src[m.end() :]
    return a


def _reorigin(spec: Any, okey: str) -> Any:
    import copy

    s = copy.deepcopy(spec)

    def rec(x: Any) -> None:
        if not x or "ref" in x:
            return
        x["o"] = okey
        for v in x.get("ch", {}).values():
            if isinstance(v, list):
                for y in v:
                    rec(y)
            else:
                rec(v)

    rec(s)
    return s


def make_config(rseed: int, prop: str, tier: str, faults: bool) -> dict[str, Any]:
    rng = Rng(rseed)
    r = rng.s("config")
    mixes = [
        ["compile", "match", "match", "recompile", "respace", "multi", "multimatch"],
        ["compile", "respace", "match", "match"],
        ["compile", "bad", "compile", "match", "multi", "multimatch"],
        ["compile", "bad", "match", "recompile"],
        ["compile", "compile", "match", "multimatch", "multi"],
        ["compile", "match", "match", "match"],
        ["compile", "multi", "multimatch", "multimatch", "match"],
    ]
    return {
        "machine": NAME,
        "prop": prop,
        "actors": [f"m{i}" for i in range(r.choice([1, 2, 2, 3]))],
        "ntrees": r.choice([1, 2, 3]),
        "late_class": r.random() < 0.3,
        "nops": r.choice([8, 15, 25, 40]) if tier == "quick" else r.choice([15, 25, 40, 60]),
        "mix": r.choice(mixes),
        "build": {
            "maxd": r.choice([2, 3]),
            "maxw": r.choice([2, 3, 4]),
            "p_ref": 0.0,
            "p_mutate": 0.5,
            "prop": "C08",
            "leaf_classes": ["LeafA", "LeafB", "LeafA2", "Meta"] + r.sample(["Vals", "Vals", "Lit", "Upper", "Both"], r.choice([0, 1, 2])),
            "inner_classes": r.sample(["Pair", "Seq", "Mixed", "Fixed", "Falsy"], r.choice([2, 3, 5])),
            "origins": r.sample(U.ORIGIN_KEYS, r.choice([2, 3])),
            "pools": {
                # 25 % of runs: multi-line values (the oracle is re.match(regex, str(value)): '.' stops at a line break)
                "str": (["a\nc", "x\ny", "line\nbreak", "\n"] if r.random() < 0.25 else []) + r.sample([s for s in U.STR_POOL if "\n" not in s] + ["a b", "a  b", "a\tb", "q  x", "a\\b", "x b", "q1", "xx"], r.choice([2, 3, 5])),
                "bool": [True, False],
            },
            "actors": ["m0"],
            "rtc": False,
        },
    }


def run(cfg: dict[str, Any], prop: str, rseed: int | None = None, ops: list[dict[str, Any]] | None = None, peer: Any = None) -> dict[str, Any]:
    violation = None
    w = World(cfg, prop)
    try:
        if ops is None:
            assert rseed is not None
            Gen(w, Rng(rseed)).run()
        else:
            w.builder.cfg.update(cfg["build"])
            for op in ops:
                w.step(dict(op))
    except Violation as v:
        violation = v.as_dict()
    out = w.stats.as_dict()
    out["ops"] = w.trace
    out["violation"] = violation
    out["cut"] = None
    out["faults_fired"] = {}
    out["faults_armed"] = {}
    p = w.stats.probes
    out["nontrivial"] = p.get("match_positive", 0) + p.get("multi_positive", 0) > 0 and (p.get("match_negative", 0) + p.get("multi_negative", 0) > 0 or p.get("captures_checked", 0) > 0)
    return out
