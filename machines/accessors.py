"""C12: child / property accessors return what the class definition dictates -- whatever the order of first use.

Per run (in a forked child): a class hierarchy is generated as source text and exec'd; the scheduler then draws an
order of first uses (instantiations, static and instance accessor calls on the classes of the hierarchy, the bare
ASTNode) over the lazily generated, self-replacing accessors; every event's result is compared with the reference of
DESIGN A.5 when it happens, and at the end the full flag cube (2^5 x sort_keys) is evaluated on every instance.
"""
from __future__ import annotations

import dataclasses
import itertools
import json
import sys
import types
from typing import Any

from simkit.core import FAULTS, HarnessError, RunStats, SkipOp, Violation, fp
from simkit.rng import Rng

import pyoak.config as pcfg
from pyoak.node import NODE_REGISTRY, ASTNode

NAME = "accessors"
PROPS = ("C12",)
NEEDS_PEER = ()

FLAGS = ("skip_id", "skip_origin", "skip_content_id", "skip_non_compare", "skip_non_init")
DEFAULT_FLAGS = {"skip_id": True, "skip_origin": True, "skip_content_id": True, "skip_non_compare": False, "skip_non_init": False}

PROP_KINDS = {
    "str": ("str", ['"a"', '"b"', '""'], ["a", "b", "", "zz"]),
    "int": ("int", ["0", "7"], [0, 1, 7]),
    "bool": ("bool", ["True", "False"], [True, False]),
    "ostr": ("str | None", ["None", '"o"'], [None, "o"]),
    "tint": ("tuple[int, ...]", ["()", "(1, 2)"], [[], [1, 2]]),
    # a local non-node type (an enum) -- a serializable class of the same name may get registered elsewhere
    "unit": ("GUnit", ["GUnit.A", "GUnit.B"], ["A", "B"]),
}
CHILD_KINDS = {
    "late": "GLate | None",  # forward reference to a class that is defined only later in the run
    "child": "GLeaf",
    "opt": "GLeaf | GFalsy | None",
    "union": "GLeaf | GOther",
    "tuple": "tuple[GLeaf | GFalsy, ...]",
    "fixed": "tuple[GLeaf, GOther]",
}

HEADER_POSTPONED = "from __future__ import annotations\n"
HEADER = '''
import enum
from dataclasses import KW_ONLY, dataclass, field
from typing import ClassVar
from pyoak.node import ASTNode


class GUnit(enum.Enum):
    A = "a"
    B = "b"


@dataclass(frozen=True)
class GLeaf(ASTNode):
    v: str = "x"


@dataclass(frozen=True)
class GOther(ASTNode):
    w: int = 0


@dataclass(frozen=True)
class GFalsy(ASTNode):
    v: str = "f"

    def __len__(self) -> int:
        return 0

'''


def render(h: dict[str, Any]) -> str:
    out = [(HEADER_POSTPONED if h["postponed"] else "") + HEADER]
    for c in h["classes"]:
        args = ["frozen=True"]
        if c["slots"]:
            args.append("slots=True")
        if c["kw_only"]:
            args.append("kw_only=True")
        out.append(f"@dataclass({', '.join(args)})")
        out.append(f"class {c['name']}({', '.join(bases_of(c))}):" if not c.get("plain") else f"class {c['name']}:")
        if not c["fields"]:
            out.append("    pass")
        for f in c["fields"]:
            if f["kind"] == "classvar":  # not a dataclass field at all
                out.append(f"    {f['name']}: {f['ann']} = {f['default']}")
                continue
            if f["kind"] == "kwmark":  # the KW_ONLY sentinel: the fields after it are keyword-only
                out.append("    _: KW_ONLY")
                continue
            ann = PROP_KINDS[f["kind"]][0] if f["kind"] in PROP_KINDS else CHILD_KINDS[f["kind"]]
            if f.get("quoted") and not h["postponed"]:
                ann = '"' + ann + '"'  # a string annotation among real-type annotations
            fargs = []
            if f.get("default") is not None:
                fargs.append(f"default={f['default']}")
            if not f["init"]:
                fargs.append("init=False")
            if not f["compare"]:
                fargs.append("compare=False")
            if f.get("hash_false"):
                fargs.append("hash=False")
            if f.get("kw_only"):
                fargs.append("kw_only=True")
            simple = f.get("default") is not None and f["init"] and f["compare"] and not f.get("kw_only") and not f.get("hash_false")
            if simple and not f.get("force_field"):
                out.append(f"    {f['name']}: {ann} = {f['default']}")
            elif fargs:
                out.append(f"    {f['name']}: {ann} = field({', '.join(fargs)})")
            else:
                out.append(f"    {f['name']}: {ann}")
        out.append("")
    return "\n".join(out)


def bases_of(c: dict[str, Any]) -> list[str]:
    if c.get("plain"):
        return []  # a plain frozen dataclass (not a node class) used as a mixin
    return [c["base"]] + ([c["base2"]] if c.get("base2") else [])


SPECIALS: list[dict[str, Any]] = [
    {"name": "id", "kind": "special", "init": False, "compare": False},
    {"name": "content_id", "kind": "special", "init": False, "compare": False},
    {"name": "origin", "kind": "special", "init": True, "compare": True},
]


def mro_names(h: dict[str, Any], cname: str, with_root: bool = False) -> list[str]:
    """C3 linearisation of a generated class (nearest first, ASTNode excluded), computed by Python itself on plain
    stand-in classes"""
    by = {c["name"]: c for c in h["classes"]}
    memo: dict[str, type] = {"ASTNode": type("ASTNode", (), {})}

    def mk(n: str) -> type:
        if n not in memo:
            memo[n] = type(n, tuple(mk(b) for b in bases_of(by[n])), {})
        return memo[n]

    return [k.__name__ for k in mk(cname).__mro__ if k.__name__ in by or (with_root and k.__name__ == "ASTNode")]


def linear(h: dict[str, Any], cname: str) -> list[dict[str, Any]]:
    """Dataclass field order (dataclasses._process_class): the bases in reverse MRO order each contribute ALL their
    fields, then the class' own; a field seen again keeps its first slot and takes the later definition.  ASTNode
    contributes id, content_id, origin -- a plain dataclass mixin listed after the node base comes before them."""
    by = {c["name"]: c for c in h["classes"]}
    out: list[dict[str, Any]] = []

    def put(f: dict[str, Any]) -> None:
        if f["kind"] in ("classvar", "kwmark"):
            return
        for i, g in enumerate(out):
            if g["name"] == f["name"]:
                out[i] = f
                return
        out.append(f)

    mro = mro_names(h, cname, with_root=True)
    for b in reversed(mro[1:]):
        for f in SPECIALS if b == "ASTNode" else linear(h, b):
            put(f)
    for f in by[cname]["fields"]:
        put(f)
    return out


def is_prop(f: dict[str, Any]) -> bool:
    return f["kind"] in PROP_KINDS or f["kind"] == "special"


def ref_property_fields(fl: list[dict[str, Any]], flags: dict[str, bool], sort: bool) -> list[str]:
    out = []
    fs = [f for f in fl if is_prop(f)]
    if sort:
        fs = sorted(fs, key=lambda f: f["name"])
    for f in fs:
        n = f["name"]
        if n == "id":
            if flags["skip_id"]:
                continue
        elif n == "content_id":
            if flags["skip_content_id"]:
                continue
        elif n == "origin":
            if flags["skip_origin"]:
                continue
        else:
            if (not f["compare"] and flags["skip_non_compare"]) or (not f["init"] and flags["skip_non_init"]):
                continue
        out.append(n)
    return out


class World:
    def __init__(self, cfg: dict[str, Any], prop: str):
        self.cfg = cfg
        self.prop = prop
        self.stats = RunStats()
        self.trace: list[dict[str, Any]] = []
        self.step_no = 0
        pcfg.ID_DIGEST_SIZE = 8
        pcfg.RUNTIME_TYPE_CHECK = cfg.get("rtc") == "on"
        pcfg.TRACE_LOGGING = bool(cfg.get("trace_logging", False))
        FAULTS.disarm()
        if len(NODE_REGISTRY) != 0:
            raise HarnessError("registry not pristine")
        self.h: dict[str, Any] | None = None
        self.mod: Any = None
        self.inst: dict[str, Any] = {}
        self.inst_cls: dict[str, str] = {}
        self.used: list[str] = []  # classes in order of first use (for signatures / probes)

    def viol(self, oracle: str, sig: str, message: str, **facts: Any) -> Violation:
        return Violation(self.prop, oracle, sig, message, {"step": self.step_no, **facts})

    def step(self, op: dict[str, Any]) -> None:
        self.step_no = op.get("step", self.step_no + 1)
        fn = getattr(self, "op_" + op["op"])
        self.trace.append(op)
        try:
            outcome = fn(op)
        except SkipOp:
            self.trace.pop()
            self.stats.skipped += 1
            return
        self.stats.note_step("user", op["op"] + ":" + str(op.get("what", "")), outcome)
        shape = None
        if self.h is not None and op.get("cls"):
            c = next((c for c in self.h["classes"] if c["name"] == op["cls"]), None)
            if c is not None:
                fl = linear(self.h, op["cls"])
                shape = (len(self._chain(op["cls"])), c["slots"], c["kw_only"], sorted({(f["kind"], f["init"], f["compare"], bool(f.get("override"))) for f in fl if f["kind"] != "special"}))
        self.stats.states.add(fp(op.get("what"), self.order_class(op.get("cls")), outcome, shape))

    # ---- ops
    def op_define(self, op: dict[str, Any]) -> str:
        self.h = op["hier"]
        src = render(self.h)
        mod = types.ModuleType("c12_generated")
        mod.__file__ = "<c12 generated>"
        sys.modules["c12_generated"] = mod
        try:
            exec(compile(src, "<c12 generated>", "exec", dont_inherit=True), mod.__dict__)
        except Exception as e:  # noqa: BLE001
            raise HarnessError(f"generated hierarchy does not define: {type(e).__name__}: {e}\n{src}") from None
        self.mod = mod
        self.src = src
        for c in self.h["classes"]:
            if c.get("mixin"):
                self.stats.probes["class_with_plain_dataclass_mixin:" + c["mixin"]] += 1
            elif c.get("base2"):
                self.stats.probes["class_with_two_node_bases" + ("" if c["fields"] else ":fieldless")] += 1
        return "ok"

    def op_early(self, op: dict[str, Any]) -> str:
        """Use of a class while a forward reference in its annotations cannot be resolved yet: whatever happens now
        (NameError is fine) must not influence what the accessors return once the reference exists."""
        C = self.cls(op["cls"])
        try:
            if op["what"] == "get_child_fields":
                C.get_child_fields()
            else:
                list(C.get_property_fields())
            out = "ok"
        except Exception as e:  # noqa: BLE001
            out = "raised:" + type(e).__name__
        self.stats.probes["early_use_" + out.split(":")[0]] += 1
        return out

    def op_define_late(self, op: dict[str, Any]) -> str:
        src = "@dataclass(frozen=True)\nclass GLate(ASTNode):\n    z: int = 0\n"
        exec(compile(src, "<c12 generated>", "exec", dont_inherit=True), self.mod.__dict__)
        return "ok"

    def op_redefine(self, op: dict[str, Any]) -> str:
        """The hierarchy is defined again in the same module (class factory called twice, reloaded notebook cell) with
        changed field lists: same module and qualified names, different classes."""
        if self.mod is None:
            raise SkipOp("nothing defined")
        self.h = op["hier"]
        src = render(self.h)
        body = src[src.index("@dataclass", src.index("class GFalsy")) :] if "class G0" in src else ""
        try:
            exec(compile((HEADER_POSTPONED if self.h["postponed"] else "") + body, "<c12 generated>", "exec", dont_inherit=True), self.mod.__dict__)
        except Exception as e:  # noqa: BLE001
            raise HarnessError(f"redefinition does not define: {type(e).__name__}: {e}\n{body}") from None
        self.src = src
        self.inst.clear()
        self.inst_cls.clear()
        self.used = []
        self.stats.probes["hierarchy_redefined"] += 1
        return "ok"

    def cls(self, name: str) -> Any:
        if self.mod is None or not hasattr(self.mod, name):
            raise SkipOp("no class")
        return getattr(self.mod, name)

    def order_class(self, name: str | None) -> str:
        """How the use of `name` relates to earlier uses in its hierarchy (for probes / state coverage)."""
        if name is None or self.h is None or name == "ASTNode":
            return "-"
        by = {c["name"]: c for c in self.h["classes"]}
        if name not in by:
            return "-"
        bases = self._chain(name)[1:]
        subs = [c["name"] for c in self.h["classes"] if name in self._chain(c["name"])[1:]]
        b = any(x in self.used for x in bases)
        s = any(x in self.used for x in subs)
        return {(False, False): "first", (True, False): "after-base", (False, True): "after-sub", (True, True): "after-both"}[(b, s)]

    def _chain(self, name: str) -> list[str]:
        return mro_names(self.h, name)

    def mark(self, name: str) -> None:
        oc = self.order_class(name)
        if name not in self.used:
            self.stats.probes["first_use:" + oc] += 1
            self.used.append(name)

    def mkchild(self, v: Any) -> Any:
        if v is None:
            return None
        memo = getattr(self, "_share", None)
        if memo is not None and "tuple" not in v:
            # one node OBJECT at several child positions of the instance (a user's `BinOp(a, a)`)
            key = json.dumps(v, sort_keys=True)
            if key in memo:
                self.stats.probes["child_object_shared"] += 1
                return memo[key]
            memo[key] = self._mkchild(v)
            return memo[key]
        return self._mkchild(v)

    def _mkchild(self, v: Any) -> Any:
        if "leaf" in v:
            return self.mod.GLeaf(v["leaf"])
        if "other" in v:
            return self.mod.GOther(v["other"])
        if "falsy" in v:
            self.stats.probes["falsy_child_used"] += 1
            return self.mod.GFalsy(v["falsy"])
        if "late" in v:
            return self.mod.GLate(v["late"])
        if "tuple" in v:
            return tuple(self.mkchild(x) for x in v["tuple"])
        raise HarnessError(str(v))

    def op_foreign(self, op: dict[str, Any]) -> str:
        """Somewhere else (a plugin imported late) a NODE class gets defined whose name is that of a local non-node
        type used in this hierarchy's annotations: legal, and none of this hierarchy's business."""
        if self.__dict__.get("_foreign_done"):
            raise SkipOp("done")
        self._foreign_done = True
        mod = types.ModuleType("c12_foreign")
        mod.__file__ = "<c12 foreign>"
        sys.modules["c12_foreign"] = mod
        src = "from dataclasses import dataclass\nfrom pyoak.node import ASTNode\n\n\n@dataclass(frozen=True)\nclass GUnit(ASTNode):\n    n: int = 0\n"
        try:
            exec(compile(src, "<c12 foreign>", "exec", dont_inherit=True), mod.__dict__)
            mod.GUnit(n=1)
        except Exception as e:  # noqa: BLE001
            raise HarnessError(f"foreign class does not define: {type(e).__name__}: {e}") from None
        self.stats.probes["same_named_node_class_defined_elsewhere"] += 1
        return "ok"

    def op_set_rtc(self, op: dict[str, Any]) -> str:
        """RUNTIME_TYPE_CHECK switched in the middle of the run (every value of the run is well-typed)"""
        pcfg.RUNTIME_TYPE_CHECK = bool(op["on"])
        self.stats.probes["runtime_type_check_switched"] += 1
        return "ok"

    def op_bare(self, op: dict[str, Any]) -> str:
        n = ASTNode()
        list(n.get_properties())
        list(n.get_child_nodes())
        list(n.get_child_nodes_with_field())
        list(n.iter_child_fields())
        self.stats.probes["bare_astnode_used"] += 1
        return "ok"

    def op_event(self, op: dict[str, Any]) -> str:
        cname, what = op["cls"], op["what"]
        C = self.cls(cname)
        fl = linear(self.h, cname)
        if what == "instantiate":
            kw: dict[str, Any] = {}
            self._share = {} if op.get("share") else None
            for f in fl:
                if f["name"] in op["vals"]:
                    v = op["vals"][f["name"]]
                    if f["kind"] == "unit":
                        kw[f["name"]] = self.mod.GUnit[v]
                    elif f["kind"] in PROP_KINDS:
                        kw[f["name"]] = tuple(v) if f["kind"] == "tint" else v
                    else:
                        kw[f["name"]] = self.mkchild(v)
            try:
                o = C(**kw)
            except Exception as e:  # noqa: BLE001
                if isinstance(e, TypeError) and "__init__()" in str(e):
                    raise HarnessError(f"instantiation failed: {type(e).__name__}: {e}\n{self.src}\n{kw}") from None
                # construction runs the generated accessors (digests); a valid class with valid values must construct
                raise self.viol("C12.9 construction-raised", f"C12.9:{type(e).__name__}", f"constructing {cname} raised {type(e).__name__}: {e}", src=self.src) from None
            self.mark(cname)
            self.inst[op["inst"]] = o
            self.inst_cls[op["inst"]] = cname
            if op.get("check", True):
                self.check_instance(o, cname, fl, "instantiate", sample=True)
            return "ok"
        if what == "replace":
            # a functional update through ASTNode.replace: the result (same id when only non-comparable fields
            # change) is a different node and every accessor must describe IT
            src = self.inst.get(op.get("inst", ""))
            if src is None:
                raise SkipOp("no instance")
            kw = {}
            for f in fl:
                if f["name"] in op["vals"]:
                    v = op["vals"][f["name"]]
                    kw[f["name"]] = self.mod.GUnit[v] if f["kind"] == "unit" else tuple(v) if f["kind"] == "tint" else v
            try:
                o = src.replace(**kw)
            except Exception as e:  # noqa: BLE001
                raise self.viol("C12.9 construction-raised", f"C12.9:replace:{type(e).__name__}", f"replace() on a {cname} raised {type(e).__name__}: {e}", src=self.src) from None
            self.inst[op["out"]] = o
            self.inst_cls[op["out"]] = cname
            self.check_instance(o, cname, fl, "replace", sample=True)
            self.stats.probes["replace_then_accessors"] += 1
            return "ok"
        if what in ("suspend", "resume"):
            return self.suspend_resume(op, C, cname, fl)
        if what == "partial":
            # an accessor's generator abandoned after `take` items (any(...), next(iter(...)), a break): only a
            # perturbation of the history, every later full call must still be exact
            flags = {**DEFAULT_FLAGS, **op.get("flags", {})}
            acc = op["acc"]
            if acc == "get_property_fields":
                it = iter(C.get_property_fields(**flags))
            else:
                o = self.inst.get(op.get("inst", ""))
                if o is None:
                    raise SkipOp("no instance")
                if acc == "get_properties":
                    it = iter(o.get_properties(**flags, sort_keys=op.get("sort", False)))
                elif acc == "iter_child_fields":
                    it = iter(o.iter_child_fields(sort_keys=op.get("sort", False)))
                elif acc == "get_child_nodes_with_field":
                    it = iter(o.get_child_nodes_with_field(sort_keys=op.get("sort", False)))
                else:
                    it = iter(o.get_child_nodes(sort_keys=op.get("sort", False)))
            self.mark(cname)
            n = 0
            for _ in it:
                n += 1
                if n >= op.get("take", 1):
                    break
            if hasattr(it, "close"):
                it.close()
            del it
            self.stats.probes["accessor_generator_abandoned"] += 1
            return "ok"
        if what == "get_property_fields":
            self.mark(cname)
            flags = {**DEFAULT_FLAGS, **op.get("flags", {})}
            got = [f.name for f in C.get_property_fields(**flags)]
            want = ref_property_fields(fl, flags, False)
            if got != want:
                raise self.viol("C12.1 static-property-fields", f"C12.1:{self.flagsig(flags, fl, got, want)}", f"{cname}.get_property_fields({self.fstr(flags)}) = {got}, expected {want}", src=self.src)
            return "ok"
        if what == "get_child_fields":
            self.mark(cname)
            got = [f.name for f in C.get_child_fields()]
            want = [f["name"] for f in fl if not is_prop(f)]
            if got != want:
                raise self.viol("C12.2 static-child-fields", f"C12.2:{self.order_class(cname)}", f"{cname}.get_child_fields() = {got}, expected {want}", src=self.src)
            return "ok"
        o = self.inst.get(op.get("inst", ""))
        if o is None:
            raise SkipOp("no instance")
        self.mark(cname)
        self.check_one(o, cname, fl, what, {**DEFAULT_FLAGS, **op.get("flags", {})}, op.get("sort", False))
        return "ok"

    def suspend_resume(self, op: dict[str, Any], C: Any, cname: str, fl: list[dict[str, Any]]) -> str:
        """An accessor's generator taken for a few items, left suspended while other events run (also the very
        first call of a class, i.e. the bootstrap function), then drained: the items of both parts together must
        be exactly what one uninterrupted call yields."""
        susp = self.__dict__.setdefault("_susp", {})
        if op["what"] == "suspend":
            flags = {**DEFAULT_FLAGS, **op.get("flags", {})}
            acc, sort = op["acc"], op.get("sort", False)
            o = None
            if acc == "get_property_fields":
                it = iter(C.get_property_fields(**flags))
            else:
                o = self.inst.get(op.get("inst", ""))
                if o is None:
                    raise SkipOp("no instance")
                if acc == "get_properties":
                    it = iter(o.get_properties(**flags, sort_keys=sort))
                elif acc == "iter_child_fields":
                    it = iter(o.iter_child_fields(sort_keys=sort))
                else:
                    it = iter(o.get_child_nodes_with_field(sort_keys=sort))
            self.mark(cname)
            items = []
            for x in it:
                items.append(x)
                if len(items) >= op.get("take", 1):
                    break
            susp[op["key"]] = (it, items, acc, flags, sort, o, cname, self.h)
            self.stats.probes["accessor_generator_suspended"] += 1
            return "ok"
        ent = susp.pop(op["key"], None)
        if ent is None:
            raise SkipOp("nothing suspended")
        it, items, acc, flags, sort, o, cn, h = ent
        items = items + list(it)
        if h is not self.h:
            return "ok:redefined"  # the class was defined again meanwhile: the old generator belongs to the old class
        fl = linear(self.h, cn)
        childs = [f for f in fl if not is_prop(f)]
        cs = sorted(childs, key=lambda f: f["name"]) if sort else childs
        if acc == "get_property_fields":
            got, want = [f.name for f in items], ref_property_fields(fl, flags, False)
        elif acc == "get_properties":
            got, want = [f.name for _v, f in items], ref_property_fields(fl, flags, sort)
        elif acc == "iter_child_fields":
            got, want = [f.name for _v, f in items], [f["name"] for f in cs]
        else:
            got = [(f.name, i) for _c, f, i in items]
            want = []
            for f in cs:
                v = getattr(o, f["name"])
                if f["kind"] in ("tuple", "fixed"):
                    want += [(f["name"], i) for i in range(len(v))]
                elif v is not None:
                    want.append((f["name"], None))
        if got != want:
            raise self.viol("C12.10 suspended-accessor", f"C12.10:{acc}", f"{cn}.{acc}({self.fstr(flags)}, sort_keys={sort}) suspended after {op.get('take')} item(s) and drained later yields {got}, expected {want}", src=self.src)
        return "ok"

    def op_cube(self, op: dict[str, Any]) -> str:
        for iname, o in self.inst.items():
            cname = self.inst_cls[iname]
            self.check_instance(o, cname, linear(self.h, cname), "cube", sample=False)
        self.stats.probes["flag_cube"] += 1
        return "ok"

    # ---- oracles
    def fstr(self, flags: dict[str, bool]) -> str:
        return ",".join(k for k in FLAGS if flags[k]) or "-"

    def flagsig(self, flags: dict[str, bool], fl: list[dict[str, Any]], got: list[str], want: list[str]) -> str:
        diff = [n for n in set(got) ^ set(want)]
        kinds = set()
        by = {f["name"]: f for f in fl}
        for n in diff:
            f = by.get(n)
            if f is None:
                kinds.add("foreign-field")
            elif f["kind"] == "special":
                kinds.add(n)
            else:
                kinds.add(("noninit" if not f["init"] else "init") + "+" + ("noncompare" if not f["compare"] else "compare"))
        if not diff:
            kinds.add("order")
        return "|".join(sorted(kinds)) + ":" + ("extra" if set(got) - set(want) else "missing" if set(want) - set(got) else "order")

    def check_one(self, o: Any, cname: str, fl: list[dict[str, Any]], what: str, flags: dict[str, bool], sort: bool) -> None:
        self.stats.checks += 1
        oc = self.order_class(cname) if what != "cube" else "-"
        childs = [f for f in fl if not is_prop(f)]
        cs = sorted(childs, key=lambda f: f["name"]) if sort else childs
        if what == "get_properties":
            got = list(o.get_properties(flags["skip_id"], flags["skip_origin"], flags["skip_content_id"], flags["skip_non_compare"], flags["skip_non_init"], sort_keys=sort))
            want = ref_property_fields(fl, flags, sort)
            gn = [f.name for _v, f in got]
            if gn != want:
                raise self.viol(
                    "C12.3 get_properties",
                    f"C12.3:{self.flagsig(flags, fl, gn, want)}",
                    f"{cname}.get_properties({self.fstr(flags)}, sort_keys={sort}) yields {gn}, expected {want}",
                    src=self.src,
                )
            for v, f in got:
                if v is not getattr(o, f.name):
                    raise self.viol("C12.4 property-value", "C12.4", f"get_properties yields a value for {f.name} that is not the field's value", src=self.src)
                df = {x.name: x for x in dataclasses.fields(o)}[f.name]
                if (f.init, f.compare) != (df.init, df.compare):
                    raise self.viol("C12.5 field-object", "C12.5", f"get_properties yields a Field for {f.name} with other flags than the class' own field", src=self.src)
            return
        if what in ("get_child_nodes_with_field", "get_child_nodes", "children"):
            want_t = []
            for f in cs if what != "children" else childs:
                v = getattr(o, f["name"])
                if f["kind"] in ("tuple", "fixed"):
                    for i, c in enumerate(v):
                        want_t.append((c, f["name"], i))
                elif v is not None:
                    want_t.append((v, f["name"], None))
            if what == "get_child_nodes_with_field":
                got_t = [(c, f.name, i) for c, f, i in o.get_child_nodes_with_field(sort_keys=sort)]
            elif what == "get_child_nodes":
                got_t = [(c, None, None) for c in o.get_child_nodes(sort_keys=sort)]
                want_t = [(c, None, None) for c, _f, _i in want_t]
            else:
                lst = o.children
                got_t = [(c, None, None) for c in lst]
                want_t = [(c, None, None) for c, _f, _i in want_t]
                if isinstance(lst, list):
                    lst.append(o)  # the caller uses the returned list as a work list: it is the caller's own
            ok = len(got_t) == len(want_t) and all(a[0] is b[0] and a[1] == b[1] and a[2] == b[2] for a, b in zip(got_t, want_t))
            if not ok:
                falsy = any(hasattr(c, "__len__") for c, _f, _i in want_t)
                raise self.viol(
                    "C12.6 child-nodes",
                    f"C12.6:{what}:{'falsy-child' if falsy and len(got_t) < len(want_t) else oc}",
                    f"{cname}.{what}(sort_keys={sort}) yields {[(type(c).__name__, f, i) for c, f, i in got_t]}, expected {[(type(c).__name__, f, i) for c, f, i in want_t]}",
                    src=self.src,
                )
            return
        if what == "iter_child_fields":
            got = [(v, f.name) for v, f in o.iter_child_fields(sort_keys=sort)]
            want = [(getattr(o, f["name"]), f["name"]) for f in cs]
            if len(got) != len(want) or any(a[0] is not b[0] or a[1] != b[1] for a, b in zip(got, want)):
                raise self.viol("C12.7 iter_child_fields", f"C12.7:{oc}", f"{cname}.iter_child_fields(sort_keys={sort}) yields fields {[n for _v, n in got]}, expected {[n for _v, n in want]}", src=self.src)
            return
        if what == "to_properties_dict":
            got_d = o.to_properties_dict()
            want_n = ref_property_fields(fl, DEFAULT_FLAGS, False)
            if list(got_d.keys()) != want_n or any(got_d[n] is not getattr(o, n) for n in want_n):
                raise self.viol("C12.8 to_properties_dict", f"C12.8:{oc}", f"{cname}.to_properties_dict() has keys {list(got_d)}, expected {want_n}", src=self.src)
            return
        raise HarnessError(what)

    def check_instance(self, o: Any, cname: str, fl: list[dict[str, Any]], when: str, sample: bool) -> None:
        combos = list(itertools.product([False, True], repeat=5))
        if sample:
            combos = combos[:: 7]
        for bits in combos:
            flags = dict(zip(FLAGS, bits))
            for sort in (False, True):
                self.check_one(o, cname, fl, "get_properties", flags, sort)
        for sort in (False, True):
            for what in ("get_child_nodes_with_field", "get_child_nodes", "iter_child_fields"):
                self.check_one(o, cname, fl, what, DEFAULT_FLAGS, sort)
        self.check_one(o, cname, fl, "children", DEFAULT_FLAGS, False)
        self.check_one(o, cname, fl, "to_properties_dict", DEFAULT_FLAGS, False)
        # static variants, all 32 flag combinations
        C = type(o)
        for bits in itertools.product([False, True], repeat=5) if not sample else ():
            flags = dict(zip(FLAGS, bits))
            got = [f.name for f in C.get_property_fields(**flags)]
            want = ref_property_fields(fl, flags, False)
            if got != want:
                raise self.viol("C12.1 static-property-fields", f"C12.1:{self.flagsig(flags, fl, got, want)}", f"{cname}.get_property_fields({self.fstr(flags)}) = {got}, expected {want}", src=self.src)


# ---- generation -----------------------------------------------------------------------------------


class Gen:
    def __init__(self, w: World, rng: Rng):
        self.w = w
        self.rng = rng
        self.nf = 0
        self.late = False

    def r(self, n: str):
        return self.rng.s(n)

    def field(self, kw_only_cls: bool, existing: list[dict[str, Any]], allow_override: bool) -> dict[str, Any]:
        r = self.r("field")
        if allow_override and existing and r.random() < 0.25:
            base = r.choice(existing)
            f = dict(base)
            # an override may change default / flags, never the kind
            if f["kind"] in PROP_KINDS:
                f["compare"] = r.random() < 0.6
                f["default"] = r.choice(PROP_KINDS[f["kind"]][1])
                f["init"] = base["init"]
                f["force_field"] = True
            f["override"] = True
            return f
        self.nf += 1
        name = r.choice(["f", "g", "a", "z", "m", "_h", "_a"]) + str(self.nf)
        special = [n for n in ("non_init", "non_compare", "origin_", "content", "id_", "skip_id") if n not in self.__dict__.setdefault("used_names", set())]
        if special and r.random() < 0.06:
            # names that resemble the accessors' own flags / the three special fields (each at most once per run)
            name = special[0] if r.random() < 0.5 else r.choice(special)
            self.used_names.add(name)
        if r.random() < 0.55:
            # (no bool properties while instances are type-checked at run time: the pinned tree rejects bool values
            # there, which is C13's business, not this property's)
            kind = r.choice([k for k in PROP_KINDS if k != "bool" or not self.w.cfg.get("rtc")])
            f = {"name": name, "kind": kind, "init": True, "compare": True, "default": None, "quoted": r.random() < 0.3}
            x = r.random()
            if x < 0.15:
                f["init"] = False
            elif x < 0.3:
                f["compare"] = False
            elif x < 0.45:
                f["init"] = False
                f["compare"] = False
            if not f["init"] or not kw_only_cls or r.random() < 0.5:
                f["default"] = r.choice(PROP_KINDS[kind][1])
            if r.random() < 0.15 and not kw_only_cls and f["default"] is not None:
                f["kw_only"] = True
            if f["compare"] and r.random() < 0.1:
                f["hash_false"] = True  # kept out of __hash__ by declaration, still a comparable property
            return f
        kind = r.choice([k for k in CHILD_KINDS if k != "late" or self.late])
        if name.startswith("_"):
            name = "c" + name[1:]
        f = {"name": name, "kind": kind, "init": True, "compare": True, "default": None, "quoted": r.random() < 0.3}
        if kind == "late":
            f["quoted"] = True
            f["default"] = "None"
            return f
        if kind in ("opt", "tuple") and r.random() < 0.12:
            # a child field the constructor does not take (filled by the class itself, here: left at its default)
            f["init"] = False
            f["default"] = {"opt": "None", "tuple": "()"}[kind]
            return f
        if not kw_only_cls or r.random() < 0.4:
            f["default"] = {"child": 'GLeaf("d")', "opt": "None", "union": "GOther(1)", "tuple": "()", "fixed": '(GLeaf("p"), GOther(2))'}[kind]
            if kind in ("child", "union", "fixed"):
                # a node instance as a class-level default is shared; use kw_only classes for required children instead
                f["default"] = None if kw_only_cls else f["default"]
        return f

    def hierarchy(self) -> dict[str, Any]:
        r = self.r("hier")
        n = r.choice([1, 2, 2, 3, 3])
        classes: list[dict[str, Any]] = []
        for i in range(n):
            if i == 0:
                base = "ASTNode"
            else:
                base = r.choice([c["name"] for c in classes])
            kw_only = r.random() < 0.6
            inherited = [] if base == "ASTNode" else [f for f in linear({"classes": classes}, base) if f["kind"] != "special"]
            # a positional (non kw_only) class can only add fields with defaults after inherited defaults
            slots = r.random() < 0.3
            fields = []
            for _ in range(r.choice([0, 1, 2, 3, 4, 6])):
                f = self.field(kw_only, inherited, allow_override=not slots)
                if f.get("override") and any(g["name"] == f["name"] for g in fields):
                    continue
                if not kw_only and f["default"] is None:
                    f["kw_only"] = True
                fields.append(f)
            if r.random() < 0.2:
                self.nf += 1
                ann, dflt = r.choice([("ClassVar[int]", "3"), ("ClassVar[GLeaf | None]", "None"), ("ClassVar[str]", '"cv"'), ("ClassVar[tuple[GLeaf, ...]]", "()")])
                fields.insert(r.randint(0, len(fields)), {"name": f"cv{self.nf}", "kind": "classvar", "ann": ann, "default": dflt, "init": False, "compare": False})
            if r.random() < 0.15 and not slots:
                fields.insert(r.randint(0, len(fields)), {"name": "_", "kind": "kwmark", "init": False, "compare": False})
            classes.append({"name": f"G{i}", "base": base, "slots": slots, "kw_only": kw_only, "fields": fields})
        # CPython limitation (not pyoak): a slotted dataclass with an init=False default field cannot be the base of
        # a non-slotted dataclass (the default lives in no class attribute) -- only leaf classes are slotted
        # a class combining two node classes (neither an ancestor of the other), often with no field of its own
        if len(classes) >= 2 and r.random() < 0.3:
            h0 = {"classes": classes}
            pairs = [(a["name"], b["name"]) for a in classes for b in classes if a is not b and a["name"] not in mro_names(h0, b["name"]) and b["name"] not in mro_names(h0, a["name"])]
            if pairs:
                a, b = r.choice(pairs)
                fields = []
                if r.random() < 0.4:
                    inherited = [f for f in linear({"classes": classes + [{"name": "GX", "base": a, "base2": b, "fields": []}]}, "GX") if f["kind"] != "special"]
                    for _ in range(r.choice([1, 2])):
                        f = self.field(True, inherited, allow_override=True)
                        if f.get("override") and any(g["name"] == f["name"] for g in fields):
                            continue
                        fields.append(f)
                classes.append({"name": f"G{len(classes)}", "base": a, "base2": b, "slots": False, "kw_only": True, "fields": fields})
        # a plain frozen dataclass (no node class) mixed into one node class, before or after its node base
        if r.random() < 0.25:
            cands = [c for c in classes if not c.get("base2")]
            c = r.choice(cands)
            pf = []
            while len(pf) < r.choice([1, 2]):
                f = self.field(True, [], allow_override=False)
                if f["kind"] in PROP_KINDS:
                    pf.append(f)
            plain = {"name": "P0", "plain": True, "base": "object", "slots": False, "kw_only": True, "fields": pf}
            if r.random() < 0.5:
                c["base2"], c["mixin"] = "P0", "after-node-base"  # P0's fields come BEFORE id / content_id / origin
            else:
                c["base"], c["base2"], c["mixin"] = "P0", c["base"], "before-node-base"
            c["slots"] = False
            classes.insert(0, plain)
        used_as_base = {b for c in classes for b in bases_of(c)}
        for c in classes:
            if c["name"] in used_as_base:
                c["slots"] = False
        return {"postponed": r.random() < 0.5, "classes": classes}

    def values(self, cname: str) -> dict[str, Any]:
        r = self.r("vals")
        out: dict[str, Any] = {}
        for f in linear(self.w.h, cname):
            if f["kind"] == "special" or not f["init"]:
                continue
            required = f.get("default") is None
            if not required and r.random() < 0.4:
                continue
            k = f["kind"]
            if k in PROP_KINDS:
                out[f["name"]] = r.choice(PROP_KINDS[k][2])
            elif k == "child":
                out[f["name"]] = {"leaf": r.choice(["x", "y"])}
            elif k == "opt":
                out[f["name"]] = r.choice([None, {"leaf": "x"}, {"falsy": "f"}, {"falsy": "g"}])
            elif k == "union":
                out[f["name"]] = r.choice([{"leaf": "u"}, {"other": 3}])
            elif k == "tuple":
                n = r.choice([0, 1, 2, 3])
                out[f["name"]] = {"tuple": [r.choice([{"leaf": "t"}, {"falsy": "f"}, {"leaf": "tt"}]) for _ in range(n)]}
            elif k == "fixed":
                out[f["name"]] = {"tuple": [{"leaf": "p"}, {"other": 5}]}
            elif k == "late":
                out[f["name"]] = r.choice([None, {"late": 1}])
        return out

    def run(self) -> None:
        w = self.w
        r = self.r("sched")
        step = 0

        def do(op: dict[str, Any]) -> None:
            nonlocal step
            step += 1
            op["step"] = step
            w.step(op)

        self.late = r.random() < 0.3 and not w.cfg.get("rtc")
        do({"op": "define", "hier": self.hierarchy()})
        names = [c["name"] for c in w.h["classes"] if not c.get("plain")]
        if self.late:
            for cn in names:
                if r.random() < 0.6:
                    do({"op": "early", "cls": cn, "what": r.choice(["get_child_fields", "get_property_fields"])})
            do({"op": "define_late"})
        # schedule of first uses: a permutation biased to base-before-sub / sub-before-base / sibling-between
        mode = r.choice(["base-first", "sub-first", "random", "random"])
        order = list(names)
        if mode == "sub-first":
            order.reverse()
        elif mode == "random":
            r.shuffle(order)
        events: list[dict[str, Any]] = []
        ni = 0
        for cn in order:
            pre = []
            if r.random() < 0.2:
                pre.append({"op": "event", "cls": cn, "what": "partial", "acc": "get_property_fields", "take": r.choice([1, 1, 2]), "flags": r.choice([{}, {k: r.random() < 0.5 for k in FLAGS}])})
            if r.random() < 0.4:
                pre.append({"op": "event", "cls": cn, "what": "get_property_fields", "flags": r.choice([{}, {k: r.random() < 0.5 for k in FLAGS}])})
            if r.random() < 0.3:
                pre.append({"op": "event", "cls": cn, "what": "get_child_fields"})
            ni += 1
            inst = f"i{ni}"
            # without the sampled check the scheduled accessor events below are really the first calls on this class
            evs = pre + [{"op": "event", "cls": cn, "what": "instantiate", "inst": inst, "vals": self.values(cn), "share": self.r("share").random() < 0.3, "check": r.random() < 0.4}]
            if r.random() < 0.25:
                evs.append({"op": "event", "cls": cn, "what": "partial", "inst": inst, "acc": r.choice(["get_properties", "get_child_nodes", "get_child_nodes_with_field", "iter_child_fields", "get_property_fields"]), "take": r.choice([1, 1, 2]), "flags": r.choice([{}, {k: r.random() < 0.5 for k in FLAGS}]), "sort": r.random() < 0.5})
            for what in r.sample(["get_properties", "get_child_nodes", "get_child_nodes_with_field", "iter_child_fields", "children", "to_properties_dict"], r.choice([1, 2, 4, 6])):
                evs.append({"op": "event", "cls": cn, "what": what, "inst": inst, "flags": {k: r.random() < 0.5 for k in FLAGS}, "sort": r.random() < 0.5})
            if r.random() < 0.2:
                # suspended across the other events of this class (and, when interleaved, of the other classes)
                acc = r.choice(["get_properties", "get_child_nodes_with_field", "iter_child_fields", "get_property_fields"])
                key = f"s{ni}"
                pos = next(i for i, e in enumerate(evs) if e["what"] == "instantiate") + 1
                evs.insert(pos if acc != "get_property_fields" or r.random() < 0.5 else 0, {"op": "event", "cls": cn, "what": "suspend", "key": key, "inst": inst, "acc": acc, "take": r.choice([0, 1, 1, 2]), "flags": r.choice([{}, {k: r.random() < 0.5 for k in FLAGS}]), "sort": r.random() < 0.5})
                evs.append({"op": "event", "cls": cn, "what": "resume", "key": key})
            events.append(evs)
        # interleave the per-class event lists (keeping each list's internal order)
        flat: list[dict[str, Any]] = []
        if r.random() < 0.5:
            while any(events):
                evs = r.choice([e for e in events if e])
                flat.append(evs.pop(0))
        else:
            for evs in events:
                flat.extend(evs)
        if r.random() < 0.4:
            flat.insert(r.randint(0, len(flat)), {"op": "bare"})
        if r.random() < 0.3:
            flat.insert(r.randint(0, len(flat)), {"op": "foreign"})
        if w.cfg.get("rtc"):
            for _ in range(r.choice([0, 1, 2])):
                flat.insert(r.randint(0, len(flat)), {"op": "set_rtc", "on": r.random() < 0.5})
        for op in flat:
            do(op)
        # functional updates of property values (non-comparable ones keep the id)
        for iname in list(w.inst)[:3]:
            cn = w.inst_cls[iname]
            props = [f for f in linear(w.h, cn) if f["kind"] in PROP_KINDS and f["init"]]
            if not props or r.random() < 0.4:
                continue
            pick = [f for f in props if not f["compare"]] or props
            f = r.choice(pick)
            do({"op": "event", "cls": cn, "what": "to_properties_dict", "inst": iname})
            do({"op": "event", "cls": cn, "what": "replace", "inst": iname, "out": iname + "r", "vals": {f["name"]: r.choice(PROP_KINDS[f["kind"]][2])}})
        # second instances (now every accessor is specialised) and the exhaustive flag cube
        for cn in names:
            if r.random() < 0.6:
                ni += 1
                do({"op": "event", "cls": cn, "what": "instantiate", "inst": f"i{ni}", "vals": self.values(cn), "share": self.r("share").random() < 0.3})
        do({"op": "cube"})
        if w.cfg.get("redefine"):
            # the same names defined again with other field lists; everything must follow the NEW definitions
            h2 = self.hierarchy()
            h2["postponed"] = w.h["postponed"]
            keep = len(w.h["classes"])
            while len(h2["classes"]) < keep:
                h2 = self.hierarchy()
                h2["postponed"] = w.h["postponed"]
            do({"op": "redefine", "hier": h2})
            for c in w.h["classes"]:
                if c.get("plain"):
                    continue
                cn = c["name"]
                ni += 1
                do({"op": "event", "cls": cn, "what": "instantiate", "inst": f"i{ni}", "vals": self.values(cn), "share": self.r("share").random() < 0.3, "check": r.random() < 0.5})
                for what in r.sample(["get_properties", "get_child_nodes", "get_child_nodes_with_field", "iter_child_fields", "to_properties_dict"], 2):
                    do({"op": "event", "cls": cn, "what": what, "inst": f"i{ni}", "flags": {k: r.random() < 0.5 for k in FLAGS}, "sort": r.random() < 0.5})
            do({"op": "cube"})


def make_config(rseed: int, prop: str, tier: str, faults: bool) -> dict[str, Any]:
    r = Rng(rseed).s("config")
    return {"machine": NAME, "prop": prop, "trace_logging": r.random() < 0.3, "redefine": r.random() < 0.35, "rtc": r.choice([None, None, None, "on", "off"])}


def run(cfg: dict[str, Any], prop: str, rseed: int | None = None, ops: list[dict[str, Any]] | None = None, peer: Any = None) -> dict[str, Any]:
    violation = None
    w = World(cfg, prop)
    try:
        if ops is None:
            assert rseed is not None
            Gen(w, Rng(rseed)).run()
        else:
            for op in ops:
                w.step(dict(op))
    except Violation as v:
        violation = v.as_dict()
    out = w.stats.as_dict()
    out["ops"] = w.trace
    out["violation"] = violation
    out["cut"] = None
    out["faults_fired"] = {}
    out["faults_armed"] = {}
    out["nontrivial"] = w.h is not None and len(w.h["classes"]) >= 2 and w.stats.probes.get("flag_cube", 0) > 0
    return out
