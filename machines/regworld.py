"""The registry world W: several actors sharing one interpreter's pyoak state (NODE_REGISTRY, the
Source table, generated accessors), driven by a seeded scheduler; used for C01 C03 C04 C09 C10 C14.

Everything a run does is recorded as a list of *concrete* ops (the replay file); generation and replay
execute ops through the same `World.step`.  Reference models are harness-side (TABLE of the universe),
never pyoak's own accessors / digests.
"""
from __future__ import annotations

import json
import dataclasses
import re
import weakref
from typing import Any

from simkit.core import FAULTS, HarnessError, InjectedFault, RunStats, SkipOp, Violation, collect, fp
from simkit.rng import Rng, weighted

import pyoak.config as pcfg
from pyoak.node import NODE_REGISTRY, ASTNode
from pyoak.origin import NO_ORIGIN
from universe import v2 as U

PROPS = ("C01", "C03", "C04", "C09", "C10", "C14")
NAME = "regworld"
NEEDS_PEER = ("C01", "C04")

_SUFFIX = re.compile(r"^(.*)_(\d+)$")


class Cut(Exception):
    """The run cannot continue meaningfully (model no longer describes the world) but the active property is
    not the one violated.  Counted, not judged."""

    def __init__(self, why: str):
        super().__init__(why)
        self.why = why


# ------------------------------------------------------------------------------------------------
# harness-side structural functions (Appendix A.1)
# ------------------------------------------------------------------------------------------------


def cname(o: Any) -> str:
    return type(o).__name__


def origin_key(origin: Any) -> str:
    for k, v in U.ORIGINS.items():
        if v is origin:
            return k
    for k, v in U.ORIGINS.items():
        if type(v) is type(origin) and v == origin:
            return k
    return "?" + origin.fqn


class ShapeError(Exception):
    """a child position of a node produced by the library holds something that is not a node"""


def children_of(o: Any) -> list[tuple[str, int | None, Any]]:
    """Child positions of a node by the universe TABLE (falsy children included)."""
    out = _children_of(o)
    for f, i, c in out:
        if not isinstance(c, ASTNode):
            raise ShapeError(f"{cname(o)}.{f}[{i}] holds a {type(c).__name__}, not a node")
    return out


def _children_of(o: Any) -> list[tuple[str, int | None, Any]]:
    out: list[tuple[str, int | None, Any]] = []
    if not isinstance(o, ASTNode):
        raise ShapeError(f"a {type(o).__name__} where a node is expected")
    if cname(o) not in U.CLS:
        # a node class outside the universe (e.g. the library's synthetic xpath root that took over an id)
        for df in dataclasses.fields(o):
            v = getattr(o, df.name)
            if isinstance(v, ASTNode):
                out.append((df.name, None, v))
            elif isinstance(v, tuple) and v and all(isinstance(x, ASTNode) for x in v):
                out.extend((df.name, i, x) for i, x in enumerate(v))
        return out
    for f in U.CHILD_FIELDS.get(cname(o), ()):
        v = getattr(o, f.name)
        if f.kind in ("tuple", "fixed"):
            for i, c in enumerate(v):
                out.append((f.name, i, c))
        elif v is not None:
            out.append((f.name, None, v))
    return out


def walk(o: Any) -> list[Any]:
    """o and all descendants, pre-order, positions (objects may repeat)."""
    out = [o]
    for _f, _i, c in children_of(o):
        out.extend(walk(c))
    return out


def snap(o: Any) -> tuple[Any, ...]:
    """Value + identity snapshot of every field of a node (C10 frame condition)."""
    out: list[Any] = [("id", o.id), ("content_id", o.content_id), ("hash", hash(o)), ("origin", id(o.origin), repr(o.origin))]
    for f in U.FIELDS.get(cname(o), ()):
        v = getattr(o, f.name)
        if f.kind == "prop":
            out.append((f.name, id(v), repr(U.canon(v))))
        elif f.kind in ("tuple", "fixed"):
            out.append((f.name, id(v), tuple(id(e) for e in v)))
        else:
            out.append((f.name, id(v)))
    return tuple(out)


class Info:
    __slots__ = ("ref", "cls", "reg", "id0", "cid0", "snap", "born", "key", "idkey", "okey", "name")

    def __init__(self, o: Any, born: int, name: str):
        self.ref = weakref.ref(o)
        self.cls = cname(o)
        self.reg = True
        self.id0 = o.id
        self.cid0 = o.content_id
        self.snap = snap(o)
        self.born = born
        self.key: str | None = None
        self.idkey: str | None = None
        self.okey = origin_key(o.origin)
        self.name = name


# ------------------------------------------------------------------------------------------------
# specs
# ------------------------------------------------------------------------------------------------


def spec_nodes(spec: Any) -> int:
    if spec is None or "ref" in spec:
        return 1 if spec else 0
    n = 1
    for v in spec.get("ch", {}).values():
        if isinstance(v, list):
            n += sum(spec_nodes(x) for x in v)
        else:
            n += spec_nodes(v)
    return n


def spec_of(o: Any) -> dict[str, Any]:
    """Harness-side description of an existing tree (no refs), from its real field values."""
    cls = cname(o)
    if cls not in U.FIELDS:
        raise SkipOp("not a universe class (a library-internal node took over an id)")
    p = {}
    for f in U.PROP_FIELDS[cls]:
        if f.init:
            p[f.name] = U.encode(f.vt, getattr(o, f.name))
    ch: dict[str, Any] = {}
    for f in U.CHILD_FIELDS[cls]:
        v = getattr(o, f.name)
        if f.kind in ("tuple", "fixed"):
            ch[f.name] = [spec_of(c) for c in v]
        else:
            ch[f.name] = None if v is None else spec_of(v)
    return {"c": cls, "p": p, "ch": ch, "o": origin_key(o.origin)}


# ------------------------------------------------------------------------------------------------
# the world
# ------------------------------------------------------------------------------------------------


class Handle:
    __slots__ = ("kind", "obj", "meta", "owner")

    def __init__(self, kind: str, obj: Any, owner: str, meta: dict[str, Any] | None = None):
        self.kind = kind
        self.obj = obj
        self.owner = owner
        self.meta = meta or {}


class World:
    def __init__(self, cfg: dict[str, Any], prop: str, peer: Any = None):
        self.cfg = cfg
        self.prop = prop
        self.peer = peer
        self.handles: dict[str, Handle] = {}
        self.info: dict[int, Info] = {}
        self.stats = RunStats()
        self.trace: list[dict[str, Any]] = []
        self.step_no = 0
        self.ideal_id: dict[str, str] = {}
        self.last_reach: list[Any] = []
        self.stale_hint: list[str] = []  # handles whose root was just detached / replaced (bias)
        self.new_objs: list[Any] = []
        self.extra_roots: list[Any] = []
        pcfg.ID_DIGEST_SIZE = cfg["digest"]
        pcfg.RUNTIME_TYPE_CHECK = cfg["rtc"]
        pcfg.TRACE_LOGGING = bool(cfg.get("trace_logging", False))
        if cfg.get("debug_logger"):
            # the application has switched the library's logger to DEBUG (records go to a handler that drops them)
            import logging

            lg = logging.getLogger("pyoak")
            lg.setLevel(logging.DEBUG)
            lg.addHandler(logging.NullHandler())
            lg.propagate = False
        FAULTS.disarm()
        if len(NODE_REGISTRY) != 0:
            raise HarnessError("registry not pristine at run start")
        self.old_dyn = None
        if cfg.get("dyn_redefine"):
            self.old_dyn = U.redefine_dyn(keep=bool(cfg.get("dyn_keep_old")))
            collect()
            if len(NODE_REGISTRY) != (1 if self.old_dyn is not None else 0):
                raise HarnessError("registry not pristine after class redefinition")

    # ---- handles / references -----------------------------------------------------------------
    def on(self, p: str) -> bool:
        return self.prop == p

    def node_at(self, ref: dict[str, Any]) -> Any:
        h = self.handles.get(ref["h"])
        if h is None or h.kind != "node":
            raise SkipOp(f"no node handle {ref['h']}")
        o = h.obj
        for fname, idx in ref.get("path", ()):
            # the same notion of child positions as pick_ref / reachable (also for node classes outside the universe)
            nxt = next((c for f, i, c in children_of(o) if f == fname and i == idx), None)
            if nxt is None:
                raise SkipOp("bad path")
            o = nxt
        return o

    def roots(self) -> list[Any]:
        out = list(self.extra_roots)
        for h in self.handles.values():
            if h.kind == "node":
                out.append(h.obj)
            elif h.kind in ("tree", "gen"):
                out.append(h.meta["root"])
        return out

    def reachable(self) -> list[Any]:
        seen: dict[int, Any] = {}
        stack = list(reversed(self.roots()))
        while stack:
            o = stack.pop()
            if id(o) in seen:
                continue
            seen[id(o)] = o
            for _f, _i, c in reversed(children_of(o)):
                stack.append(c)
        return list(seen.values())

    def inf(self, o: Any) -> Info:
        i = self.info.get(id(o))
        if i is None or i.ref() is not o:
            raise HarnessError("object without model info")
        return i

    def key(self, o: Any) -> str:
        i = self.inf(o)
        if i.key is None:
            cls = i.cls
            props = sorted((f.name, U.canon(getattr(o, f.name))) for f in U.PROP_FIELDS.get(cls, ()) if f.compare)
            ch = []
            for f in U.CHILD_FIELDS.get(cls, ()):
                v = getattr(o, f.name)
                if f.kind in ("tuple", "fixed"):
                    ch.append((f.name, [self.key(c) for c in v]))
                else:
                    ch.append((f.name, None if v is None else self.key(v)))
            i.key = fp(cls, repr(props), sorted(ch))
        return i.key

    def idkey(self, o: Any) -> str:
        i = self.inf(o)
        if i.idkey is None:
            cls = i.cls
            props = sorted((f.name, U.canon(getattr(o, f.name))) for f in U.PROP_FIELDS.get(cls, ()) if f.compare)
            ch = [(f, idx, self.key(c), origin_key(c.origin)) for f, idx, c in children_of(o)]
            i.idkey = fp(cls, i.okey, repr(props), ch)
        return i.idkey

    def discover(self) -> list[Any]:
        """Register model info for objects that came into existence; returns reachable objects."""
        reach = self.reachable()
        new = []
        for o in reach:
            i = self.info.get(id(o))
            if i is None or i.ref() is not o:
                new.append(o)
        # children before parents so that key() can recurse
        for o in reversed(new):
            self.info[id(o)] = Info(o, self.step_no, f"o{self.step_no}.{len(self.info)}")
        self.new_objs = new
        self.last_reach = reach
        return reach

    def viol(self, oracle: str, sig: str, message: str, **facts: Any) -> Violation:
        return Violation(self.prop, oracle, sig, message, {"step": self.step_no, **facts})

    # ---- building -----------------------------------------------------------------------------
    def build(self, spec: dict[str, Any]) -> Any:
        if "ref" in spec:
            return self.node_at(spec["ref"])
        cls = spec["c"]
        kw: dict[str, Any] = {}
        ftab = {f.name: f for f in U.FIELDS[cls]}
        for fname, enc in spec.get("p", {}).items():
            f = ftab[fname]
            if isinstance(enc, dict) and "pow10" in enc:
                kw[fname] = 10 ** enc["pow10"]  # an int whose decimal rendering Python refuses (str() raises ValueError)
            elif isinstance(enc, dict) and "surr" in enc:
                kw[fname] = "a" + chr(int(enc["surr"], 16)) + "b"  # a lone surrogate (what os.fsdecode hands out for undecodable bytes)
            elif isinstance(enc, dict) and "raw" in enc:
                kw[fname] = enc["raw"]
            elif isinstance(enc, dict) and "raw_tuple" in enc:
                kw[fname] = tuple(enc["raw_tuple"])
            else:
                kw[fname] = U.decode(f.vt, enc)
        for fname, sub in spec.get("ch", {}).items():
            if isinstance(sub, list):
                if spec.get("as_list"):
                    kw[fname] = [self.build(s) for s in sub]  # the user handed a list to a tuple-annotated field
                else:
                    kw[fname] = tuple([self.build(s) for s in sub]) if spec.get("tl") else tuple(self.build(s) for s in sub)
            elif sub is None:
                kw[fname] = None
            else:
                kw[fname] = self.build(sub)
        return U.CLS[cls](origin=U.ORIGINS[spec.get("o", "no")], **kw)

    # ---- the step -----------------------------------------------------------------------------
    def step(self, op: dict[str, Any]) -> None:
        self.step_no = op.get("step", self.step_no + 1)
        kind = op["op"]
        fn = getattr(self, "op_" + kind, None)
        if fn is None:
            raise HarnessError(f"unknown op {kind}")
        FAULTS.disarm()
        FAULTS.reset_hits()
        flt = op.get("fault")
        if flt:
            FAULTS.arm(flt["site"], flt["k"])
        self.reg_before = {k: id(v) for k, v in list(NODE_REGISTRY.items())}
        self.trace.append(op)
        try:
            try:
                outcome = fn(op)
            except SkipOp:
                self.trace.pop()
                self.stats.skipped += 1
                return
            finally:
                FAULTS.disarm()
                self.extra_roots = []
                self.adopt_sink()
            self.stats.note_step(op.get("actor", "a0"), kind, outcome)
            if self.cfg["gc"] == "exact" or kind == "gc":
                collect()
            self.discover()
            self.check_all(op, outcome)
            self.fingerprint()
        except ShapeError as e:
            # every property here is about trees of nodes: a tree the library built from well-formed input with a
            # non-node in a child position is outside all of them
            raise self.viol(f"{self.prop}.0 malformed-tree", f"{self.prop}.0:shape:{kind}", f"after {kind}: {e}", op=kind) from None

    def adopt_sink(self) -> None:
        """Nodes constructed by user callbacks during the op (Hook.__post_init__) and kept by the user: the first few
        become ordinary handles, the rest are dropped at once."""
        sink = U.M.HOOK_SINK
        self.adopted_now: set[int] = set()
        if not sink:
            return
        for o in sink:
            self.adopted_now.add(id(o))
            n = self.__dict__.setdefault("_adopted", 0)
            if n < 8:
                self._adopted = n + 1
                self.put(f"hk{n}", "node", o, "a0")
            self.stats.probes["node_made_by_user_callback"] += 1
        del sink[:]

    # ---- invariants after every step ----------------------------------------------------------
    def check_all(self, op: dict[str, Any], outcome: str) -> None:
        reach = self.last_reach
        self.stats.checks += 1
        # purge model entries of dead objects / detect leaks
        reach_ids = {id(o) for o in reach}
        exact = self.cfg["gc"] == "exact" or op["op"] == "gc"
        for oid in list(self.info):
            i = self.info[oid]
            if oid in reach_ids and i.ref() is not None:
                continue
            if i.ref() is None:
                del self.info[oid]
            elif exact:
                if self.allowed_extra(i.ref()):
                    continue  # e.g. the synthetic xpath root, alive for as long as the user keeps a findall generator
                if self.on("C03"):
                    raise self.viol(
                        "C03.4 unreferenced-node-kept-alive",
                        f"C03.4:{op['op']}:{outcome.split(':')[0]}",
                        f"node {i.name} ({i.cls}) is referenced by no user handle but is still alive after {op['op']}",
                        op=op["op"],
                        cls=i.cls,
                    )
                # not our property: keep tracking it as an (unexpectedly) live object
        if self.on("C10") or self.on("C01") or self.on("C09"):
            self.check_frame(op)
        if self.on("C10") and exact:
            # last clause: registry membership of an existing node may only change as specified for detach / replace
            # (the model flags are only touched by detach, detach_self and a successful replace on that very node)
            for o in self.last_reach:
                i = self.inf(o)
                if i.born == self.step_no:
                    continue
                now = ASTNode.get_any(o.id) is o
                if now != i.reg:
                    raise self.viol(
                        "C10.3 registry-membership-changed",
                        f"C10.3:{op['op']}:{'lost' if i.reg else 'gained'}",
                        f"{op['op']} {'removed' if i.reg else 'added'} pre-existing node {i.name} ({i.cls}) {'from' if i.reg else 'to'} the registry although it was not detached / replaced by this call",
                        op=op["op"],
                    )
        if self.on("C03"):
            self.check_registry(op, outcome, exact)
        if self.on("C01"):
            self.check_content(op)

    def check_frame(self, op: dict[str, Any]) -> None:
        for o in self.last_reach:
            i = self.inf(o)
            if i.born == self.step_no:
                continue
            s = snap(o)
            if s != i.snap:
                changed = [a[0] for a, b in zip(s, i.snap) if a != b]
                if self.on("C01"):
                    if "content_id" in changed:
                        raise self.viol(
                            "C01.3 content_id-changed-during-lifetime",
                            f"C01.3:{op['op']}",
                            f"content_id of {i.name} changed from {i.cid0} to {o.content_id} during {op['op']}",
                        )
                    continue
                if self.on("C09"):
                    raise self.viol(
                        "C09.13 input-modified",
                        f"C09.frame:{op['op']}:{','.join(changed)}",
                        f"{op['op']} changed field(s) {changed} of pre-existing node {i.name} ({i.cls})",
                    )
                raise self.viol(
                    "C10.1 existing-node-modified",
                    f"C10.1:{op['op']}:{','.join(changed)}",
                    f"{op['op']} changed field(s) {changed} of pre-existing node {i.name} ({i.cls})",
                    op=op["op"],
                    fields=changed,
                )

    def allowed_extra(self, obj: Any) -> bool:
        if obj is self.old_dyn:
            return True  # an instance of the OLD class of a re-defined name, kept alive by the user
        # the synthetic xpath root is a node that is alive while a findall generator is suspended
        if cname(obj) == "_DUMMY_XPATH_ROOT":
            return any(h.kind == "gen" for h in self.handles.values())
        return False

    def check_registry(self, op: dict[str, Any], outcome: str, exact: bool) -> None:
        expect: dict[str, Any] = {}
        kind = op["op"]
        for o in self.last_reach:
            i = self.inf(o)
            got = ASTNode.get_any(o.id)
            if i.reg:
                if got is not o:
                    what = "nothing" if got is None else ("another object" if cname(got) != "_DUMMY_XPATH_ROOT" else "a synthetic root")
                    stale = self.receiver_state(op)
                    raise self.viol(
                        "C03.1 live-registered-node-lost",
                        f"C03.1:{kind}:{outcome.split(':')[0]}:{stale}",
                        f"node {i.name} ({i.cls}, id {o.id}) is referenced and was never detached/replaced, "
                        f"but get_any(id) returns {what} after {kind}",
                        op=kind,
                        receiver=stale,
                        lost=i.name,
                    )
                if o.id in expect and expect[o.id] is not o:
                    raise self.viol(
                        "C03.2 duplicate-id-among-registered",
                        f"C03.2:{kind}",
                        f"two registered nodes share id {o.id}",
                    )
                expect[o.id] = o
            else:
                if got is o:
                    raise self.viol(
                        "C03.3 detached-node-still-returned",
                        f"C03.3:{kind}:{outcome.split(':')[0]}",
                        f"node {i.name} ({i.cls}) was detached/replaced away but get_any(id) still returns it after {kind}",
                        op=kind,
                    )
        # typed lookups, on a sample (all registered objects of this step's neighbourhood)
        for o in self.last_reach[:40]:
            i = self.inf(o)
            if not i.reg:
                continue
            t = type(o)
            if t.get(o.id) is not o:
                raise self.viol("C03.5 get-own-class", f"C03.5:own:{kind}", f"{i.cls}.get(id) does not return the registered node {i.name}")
            mro = U.MRO.get(i.cls, [i.cls])
            if len(mro) > 1:
                sup = U.CLS[mro[1]]
                if sup.get(o.id) is not None:
                    raise self.viol("C03.5 get-strict-superclass", f"C03.5:strict:{kind}", f"{mro[1]}.get(id) (strict) returned a {i.cls}")
                if sup.get(o.id, strict=False) is not o:
                    raise self.viol("C03.5 get-nonstrict-superclass", f"C03.5:nonstrict:{kind}", f"{mro[1]}.get(id, strict=False) does not return {i.name}")
            other = U.CLS["Carrier" if i.cls != "Carrier" else "LeafB"]
            if other.get(o.id, strict=False) is not None or other.get(o.id) is not None:
                raise self.viol("C03.5 get-unrelated-class", f"C03.5:unrelated:{kind}", f"unrelated class get(id) returned {i.name}")
            sentinel = ASTNode.get_any("no-such-id", o)
            if sentinel is not o:
                raise self.viol("C03.5 get_any-default", f"C03.5:default:{kind}", "get_any(unknown, default) did not return the default")
            if t.get("no-such-id") is not None or t.get("no-such-id", o) is not o or t.get("no-such-id", o, strict=False) is not o:
                raise self.viol("C03.5 get-default", f"C03.5:typed-default:{kind}", "get(unknown id[, default]) did not return None / the default")
        # typed lookups of ids that are registered to nobody (detached nodes whose id no one else took)
        for o in self.last_reach[:40]:
            i = self.inf(o)
            if i.reg or ASTNode.get_any(o.id) is not None:
                continue
            if type(o).get(o.id) is not None or type(o).get(o.id, strict=False) is not None or type(o).get(o.id, o) is not o:
                raise self.viol("C03.5 get-unregistered", f"C03.5:unregistered:{kind}", f"{i.cls}.get(id) of the detached node {i.name}, whose id is registered to nobody, did not return None / the default")
        if self.old_dyn is not None:
            # two live classes share the name "Dyn": strict get() is by class, not by name
            od = self.old_dyn
            if ASTNode.get_any(od.id) is od:
                if U.CLS["Dyn"].get(od.id) is not None or U.CLS["Dyn"].get(od.id, strict=False) is not None:
                    raise self.viol("C03.5 get-other-class-same-name", f"C03.5:same-name:{kind}", "the re-defined class' get() returned a node of the OLD class of the same name")
                if type(od).get(od.id) is not od:
                    raise self.viol("C03.5 get-own-class", f"C03.5:own-old:{kind}", "the old class' get() does not return its own registered node")
                for o in self.last_reach:
                    if cname(o) == "Dyn" and self.inf(o).reg and type(od).get(o.id) is not None:
                        raise self.viol("C03.5 get-other-class-same-name", f"C03.5:same-name-old:{kind}", "the OLD class' strict get() returned a node of the re-defined class of the same name")
        if exact:
            for k, v in list(NODE_REGISTRY.items()):
                if k in expect and expect[k] is v:
                    continue
                if self.allowed_extra(v):
                    continue
                known = self.info.get(id(v))
                desc = known.name if known is not None and known.ref() is v else cname(v)
                raise self.viol(
                    "C03.6 registry-holds-extra-entry",
                    f"C03.6:{kind}:{outcome.split(':')[0]}",
                    f"registry returns {desc} under id {k} although it is detached / unreferenced / not a user node, after {kind}",
                    op=kind,
                )
        if outcome.startswith("raised") and kind == "replace" and exact:
            # (nodes that a user callback constructed and kept during the call are the user's doing, not replace()'s)
            now = {k: id(v) for k, v in list(NODE_REGISTRY.items()) if id(v) not in getattr(self, "adopted_now", ())}
            if now != self.reg_before:
                raise self.viol(
                    "C03.7 failed-replace-changed-registry",
                    f"C03.7:{op.get('bad')}",
                    f"replace() raised ({outcome}) but the registry differs from before the call",
                    bad=op.get("bad"),
                )

    def receiver_state(self, op: dict[str, Any]) -> str:
        ref = op.get("n")
        if not ref:
            return "-"
        try:
            o = self.node_at(ref)
            return "stale" if not self.inf(o).reg else "live"
        except Exception:
            return "?"

    def check_content(self, op: dict[str, Any]) -> None:
        by_key: dict[str, str] = {}
        by_cid: dict[str, str] = {}
        by_key_obj: dict[str, Any] = {}
        for o in self.last_reach:
            i = self.inf(o)
            k = self.key(o)
            c = o.content_id
            if k in by_key and by_key[k] != c:
                a = by_key_obj[k]
                raise self.viol(
                    "C01.1 equal-content-different-content_id",
                    "C01.1:" + self.diffclass(a, o),
                    f"{self.inf(a).name} and {i.name} are structurally content-equal but content_ids differ ({by_key[k]} vs {c})",
                    a=spec_of(a),
                    b=spec_of(o),
                )
            if c in by_cid and by_cid[c] != k and self.cfg["digest"] >= 8:
                a = by_key_obj[by_cid[c]]
                raise self.viol(
                    "C01.2 different-content-same-content_id",
                    "C01.2:" + self.diffclass(a, o),
                    f"{self.inf(a).name} and {i.name} differ in content but share content_id {c}",
                    a=spec_of(a),
                    b=spec_of(o),
                )
            by_key[k] = c
            by_cid[c] = k
            by_key_obj[k] = o
        # is_equal on a bounded sample of pairs, both directions
        rs = self.last_reach[:14]
        for a in rs:
            for b in rs:
                want = type(a) is type(b) and self.key(a) == self.key(b)
                if self.cfg["digest"] < 8 and not want:
                    continue
                if a.is_equal(b) != want:
                    raise self.viol(
                        "C01.4 is_equal-disagrees-with-structure",
                        "C01.4:" + self.diffclass(a, b),
                        f"is_equal({self.inf(a).name}, {self.inf(b).name}) is {not want}, structural equality says {want}",
                        a=spec_of(a),
                        b=spec_of(b),
                    )

    def diffclass(self, a: Any, b: Any) -> str:
        """Coarse class of the first structural difference between two trees (for signatures)."""
        if cname(a) != cname(b):
            return "class"
        for f in U.PROP_FIELDS[cname(a)]:
            if not f.compare:
                continue
            va, vb = getattr(a, f.name), getattr(b, f.name)
            if U.canon(va) != U.canon(vb):
                if isinstance(va, frozenset):
                    return "prop:frozenset"
                if type(va) is not type(vb):
                    return "prop:type"
                if isinstance(va, str):
                    seps = set(":=()[]@<>'")
                    return "prop:str-with-separators" if (seps & set(va)) or (seps & set(vb)) else "prop:str"
                return "prop:" + type(va).__name__
            if isinstance(va, frozenset) and va == vb:
                continue
        for f in U.CHILD_FIELDS[cname(a)]:
            va, vb = getattr(a, f.name), getattr(b, f.name)
            if f.kind in ("tuple", "fixed"):
                if len(va) != len(vb):
                    return "child:tuple-length"
                for x, y in zip(va, vb):
                    if self.key(x) != self.key(y):
                        return "child/" + self.diffclass(x, y)
            else:
                if (va is None) != (vb is None):
                    present = va if va is not None else vb
                    return "child:absent-vs-present" + (":falsy" if hasattr(present, "__len__") and len(present) == 0 else "")
                if va is not None and self.key(va) != self.key(vb):
                    return "child/" + self.diffclass(va, vb)
        if any(isinstance(getattr(a, f.name), frozenset) for f in U.PROP_FIELDS[cname(a)]):
            return "same:frozenset-order"
        for f, _i, c in children_of(a):
            pass
        return "same"

    def fingerprint(self) -> None:
        groups: dict[str, int] = {}
        items = []
        for o in self.last_reach:
            k = self.idkey(o)
            groups[k] = groups.get(k, 0) + 1
        for o in self.last_reach:
            i = self.inf(o)
            m = _SUFFIX.match(o.id)
            items.append((i.cls, i.reg, groups[self.idkey(o)] > 1, bool(m)))
        items.sort()
        kinds = sorted(h.kind for h in self.handles.values() if h.kind != "node")
        self.stats.states.add(fp(items, kinds))

    # ---- ops ----------------------------------------------------------------------------------
    def put(self, name: str, kind: str, obj: Any, owner: str, meta: dict[str, Any] | None = None) -> None:
        self.handles[name] = Handle(kind, obj, owner, meta)

    def _pre_ids(self) -> dict[str, int]:
        """idkey -> number of model-registered reachable nodes with that idkey (before the op)."""
        out: dict[str, int] = {}
        for o in self.last_reach:
            i = self.info.get(id(o))
            if i is not None and i.ref() is o and i.reg:
                k = self.idkey(o)
                out[k] = out.get(k, 0) + 1
        return out

    def check_id_determinism(self, o: Any, pre: dict[str, int], siblings: dict[str, int]) -> None:
        """C03: a node created while no registered node has the same class, origin, comparable content and
        direct children gets the same id every time (digest >= 8: no accidental digest collisions)."""
        if self.cfg["digest"] < 8 or self.cfg["gc"] != "exact":
            return
        k = self.idkey(o)
        if any(x is not o and type(x) is type(o) and x.content_id == o.content_id and x.origin == o.origin for x in U.M.HOOK_SINK):
            # a twin made by a user callback DURING this very operation (it sits in the sink, not yet adopted): the
            # node was not created "while no registered node has the same class, origin, content"
            self.stats.probes["twin_created_by_callback"] += 1
            return
        if pre.get(k, 0) or siblings.get(k, 0) > 1:
            self.stats.probes["twin_created"] += 1
            if _SUFFIX.match(o.id):
                self.stats.probes["suffix_id_assigned"] += 1
            return
        known = self.ideal_id.get(k)
        # is a registered node with the same class / content / children but ANOTHER origin of the same fqn around?
        fqn_twin = None
        for x in self.last_reach:
            ix = self.info.get(id(x))
            if ix is None or ix.ref() is not x or not ix.reg or x is o or cname(x) != cname(o):
                continue
            if ix.okey != self.inf(o).okey and x.origin.fqn == o.origin.fqn and self.key(x) == self.key(o) and [
                (f, i, self.key(c), c.origin.fqn) for f, i, c in children_of(x)
            ] == [(f, i, self.key(c), c.origin.fqn) for f, i, c in children_of(o)]:
                fqn_twin = ix
                break
        if fqn_twin is None and any(
            c.origin.fqn == d.fqn and origin_key(c.origin) != origin_key(d)
            for _f, _i, c in children_of(o)
            for d in (U.ORIGINS[k2] for k2 in U.EXTRA_ORIGIN_KEYS + ["g:a", "c:a:0-5"])
        ):
            # a direct child carries an origin that shares its fqn with another origin: its parent's id cannot tell
            return
        if known is None:
            if fqn_twin is None:
                self.ideal_id[k] = o.id
        elif known != o.id and self.on("C03"):
            if fqn_twin is not None:
                pair = "|".join(sorted((self.inf(o).okey, fqn_twin.okey)))
                # the recorded finding names the two pairs of universe origins that share an fqn on the pinned tree;
                # any OTHER pair of unequal origins doing so is a new violation
                known_pair = pair in ("c:a:0-5|c:a:0-5@l2", "c:a:0-0|g:a")
                raise self.viol(
                    "C03.8 id-not-deterministic",
                    "C03.8:origins-share-fqn" if known_pair else f"C03.8:origins-share-fqn:{pair}",
                    f"a {cname(o)} with origin {self.inf(o).okey} got id {o.id} (earlier {known}) because a node with the other origin {fqn_twin.okey} of the same fqn is registered",
                )
            raise self.viol(
                "C03.8 id-not-deterministic",
                "C03.8",
                f"a {cname(o)} created while no registered node has the same class/origin/content/children got id {o.id}, earlier {known}",
            )
        elif known == o.id:
            self.stats.probes["same_id_again"] += 1

    def after_creation(self, pre: dict[str, int]) -> None:
        """Call after discover-able new objects exist (op-local discovery)."""
        self.discover()
        sib: dict[str, int] = {}
        for o in self.new_objs:
            k = self.idkey(o)
            sib[k] = sib.get(k, 0) + 1
        for o in self.new_objs:
            self.check_id_determinism(o, pre, sib)

    def op_construct(self, op: dict[str, Any]) -> str:
        pre = self._pre_ids()
        try:
            o = self.build(op["spec"])
        except InjectedFault as e:
            self.stats.probes["fault_fired:" + e.site] += 1
            return "raised:InjectedFault"
        except SkipOp:
            raise
        except Exception as e:  # noqa: BLE001
            if op.get("expect") == "fail" or (self.cfg["rtc"] and type(e).__name__ == "InvalidTypes"):
                return "raised:" + type(e).__name__
            raise Cut(f"construct raised {type(e).__name__}: {e}") from None
        self.put(op["out"], "node", o, op.get("actor", "a0"))
        del o
        self.after_creation(pre)
        return "ok"

    def op_drop(self, op: dict[str, Any]) -> str:
        if op["h"] not in self.handles:
            raise SkipOp("no handle")
        h = self.handles.pop(op["h"])
        if h.kind == "gen":
            h.obj.close()
        self.stats.probes["drop"] += 1
        return "ok"

    def op_gc(self, op: dict[str, Any]) -> str:
        return "ok"

    def op_detach_self(self, op: dict[str, Any]) -> str:
        o = self.node_at(op["n"])
        i = self.inf(o)
        twin_live = any(
            self.inf(x).reg and x is not o and x.id == o.id for x in self.last_reach
        )
        if not i.reg and twin_live:
            self.stats.probes["stale_handle_op_while_twin_live"] += 1
        ret = o.detach_self()
        want = i.reg
        i.reg = False
        if self.on("C03") and ret is not want:
            raise self.viol(
                "C03.9 detach_self-return-value",
                f"C03.9:{'stale' if not want else 'live'}",
                f"detach_self() returned {ret} for a node whose registered state was {want}",
                receiver="stale" if not want else "live",
            )
        return "ok"

    def op_detach(self, op: dict[str, Any]) -> str:
        o = self.node_at(op["n"])
        nodes = walk(o)
        if len(nodes) >= 3 and any(children_of(c) for _f, _i, c in children_of(o)):
            self.stats.probes["detach_depth_ge_3"] += 1
        if any(not self.inf(x).reg and any(self.inf(y).reg and y is not x and y.id == x.id for y in self.last_reach) for x in nodes):
            self.stats.probes["stale_handle_op_while_twin_live"] += 1
        o.detach()
        for x in nodes:
            self.inf(x).reg = False
        return "ok"

    def _changes(self, o: Any, ch: dict[str, Any]) -> dict[str, Any]:
        kw: dict[str, Any] = {}
        ftab = {f.name: f for f in U.FIELDS[cname(o)]}
        for fname, v in ch.items():
            if "raw" in v:
                kw[fname] = v["raw"]
            elif "o" in v:
                kw[fname] = U.ORIGINS[v["o"]]
            elif "v" in v:
                kw[fname] = U.decode(ftab[fname].vt, v["v"])
            elif "spec" in v:
                kw[fname] = None if v["spec"] is None else self.build(v["spec"])
            elif "specs" in v:
                kw[fname] = tuple(self.build(s) for s in v["specs"])
        return kw

    def _check_replaced(self, o: Any, new: Any, kw: dict[str, Any], which: str) -> None:
        if not self.on("C14"):
            return
        if type(new) is not type(o):
            raise self.viol("C14.5 replace-class", f"C14.5:{which}", f"{which} returned a {cname(new)} for a {cname(o)}")
        if new is o:
            raise self.viol("C14.5 replace-returned-original", f"C14.5:same:{which}", f"{which} returned the original object")
        for f in dataclasses.fields(o):
            if not f.init:
                continue
            got = getattr(new, f.name)
            if f.name in kw:
                if got is not kw[f.name]:
                    raise self.viol(
                        "C14.6 replace-changed-field-value",
                        f"C14.6:{which}",
                        f"{which}: field {f.name} of the result does not hold the given object",
                        field=f.name,
                    )
            elif got is not getattr(o, f.name):
                raise self.viol(
                    "C14.7 replace-unchanged-field-not-same-object",
                    f"C14.7:{which}:{f.name}",
                    f"{which}: untouched init field {f.name} of the result is not the very same object as the original's",
                    field=f.name,
                )

    def op_dc_replace(self, op: dict[str, Any]) -> str:
        o = self.node_at(op["n"])
        kw = self._changes(o, op["ch"])
        pre = self._pre_ids()
        i = self.inf(o)
        try:
            new = dataclasses.replace(o, **kw)
        except Exception as e:  # noqa: BLE001
            raise Cut(f"dataclasses.replace raised {type(e).__name__}: {e}") from None
        self._check_replaced(o, new, kw, "dataclasses.replace")
        if self.on("C14") and i.reg:
            if new.id == o.id:
                raise self.viol("C14.8 dc-replace-same-id", "C14.8", "dataclasses.replace on a registered original yielded the same id")
            if ASTNode.get_any(o.id) is not o:
                raise self.viol("C14.9 dc-replace-unregistered-original", "C14.9", "dataclasses.replace on a registered original left it unregistered")
        self.put(op["out"], "node", new, op.get("actor", "a0"))
        del new, kw
        self.after_creation(pre)
        return "ok"

    def op_replace(self, op: dict[str, Any]) -> str:
        o = self.node_at(op["n"])
        i = self.inf(o)
        pre0 = self._pre_ids()
        kw = self._changes(o, op["ch"])
        # the argument nodes are built (and registered) while the original is still registered
        self.extra_roots = [x for v in kw.values() for x in (v if isinstance(v, tuple) else (v,)) if isinstance(x, ASTNode)]
        self.after_creation(pre0)
        if not i.reg and any(self.inf(x).reg and x is not o and x.id == o.id for x in self.last_reach):
            self.stats.probes["stale_handle_op_while_twin_live"] += 1
        pre = self._pre_ids()
        if i.reg:
            k = self.idkey(o)
            pre[k] = pre.get(k, 0) - 1
        try:
            new = o.replace(**kw)
        except Exception as e:  # noqa: BLE001
            name = type(e).__name__
            if isinstance(e, InjectedFault):
                self.stats.probes["fault_fired:" + e.site] += 1
            if op.get("expect") != "fail":
                raise Cut(f"replace raised {name}: {e}") from None
            self.stats.probes["replace_failed:" + str(op.get("bad"))] += 1
            del e
            return "raised:" + name
        if op.get("expect") == "fail":
            # the library accepted something we built to be refused: not judged, model follows reality
            self.stats.probes["replace_expected_fail_but_ok"] += 1
        self._check_replaced(o, new, kw, "ASTNode.replace")
        was_reg = i.reg
        i.reg = False
        self.put(op["out"], "node", new, op.get("actor", "a0"))
        self.discover()
        sib: dict[str, int] = {}
        for x in self.new_objs:
            sib[self.idkey(x)] = sib.get(self.idkey(x), 0) + 1
        for x in self.new_objs:
            self.check_id_determinism(x, pre, sib)
        if self.on("C14"):
            nk = self.idkey(new)
            no_twin = pre.get(nk, 0) <= 0 and sib.get(nk, 0) <= 1
            if was_reg and no_twin and self.cfg["digest"] >= 8 and not self.cfg.get("exotic_origins"):
                # (with origins that share an fqn a registered node of ANOTHER origin can hold the id: the remembered
                # "ideal" id is then not what a fresh construction gets either -- the differential probe still applies)
                ideal = self.ideal_id.get(nk)
                if self.idkey(o) == nk:
                    self.stats.probes["replace_noncompare_only_no_twin"] += 1
                if ideal is not None and new.id != ideal:
                    raise self.viol(
                        "C14.10 replace-id-not-fresh",
                        "C14.10:ideal",
                        f"replace() result id {new.id} differs from the id a fresh construction gets ({ideal})",
                    )
            if ASTNode.get_any(new.id) is not new:
                raise self.viol("C14.11 replace-result-not-registered", "C14.11", "the node returned by replace() is not registered under its id")
            if ASTNode.get_any(o.id) is o:
                raise self.viol("C14.12 replace-original-still-registered", "C14.12", "replace() left the original registered")
            if op.get("probe_fresh") and was_reg and cname(new) != "Hook":
                # (not for Hook: its constructor registers helper nodes of its own, so two constructions never meet the
                # same registry)
                # differential form of "the id a fresh construction with the original absent would get": take the
                # result out of the registry again and really construct the same node afresh over the same children
                nid = new.id
                new.detach_self()
                self.inf(new).reg = False
                fspec = {"c": cname(new), "p": {f.name: {"raw": getattr(new, f.name)} for f in U.PROP_FIELDS[cname(new)] if f.init}, "ch": {}, "o": origin_key(new.origin)}
                for f in U.CHILD_FIELDS[cname(new)]:
                    v = getattr(new, f.name)
                    if f.kind in ("tuple", "fixed"):
                        fspec["ch"][f.name] = [{"ref": {"h": op["out"], "path": [[f.name, i]]}} for i in range(len(v))]
                    else:
                        fspec["ch"][f.name] = None if v is None else {"ref": {"h": op["out"], "path": [[f.name, None]]}}
                fresh = self.build(fspec)
                twin = "with-twin" if not no_twin else "no-twin"
                self.stats.probes["replace_fresh_probe:" + twin] += 1
                if fresh.id != nid:
                    raise self.viol(
                        "C14.10 replace-id-not-fresh",
                        f"C14.10:differential:{twin}",
                        f"replace() gave id {nid}; a fresh construction of the same node with the original absent gets {fresh.id}",
                        twin=twin,
                    )
                self.put(op["out"], "node", fresh, op.get("actor", "a0"))
                del fresh
                self.discover()
        self.stale_hint.append(op["n"]["h"])
        return "ok"

    def op_duplicate(self, op: dict[str, Any]) -> str:
        o = self.node_at(op["n"])
        pre = self._pre_ids()
        try:
            d = o.duplicate()
        except InjectedFault as e:
            self.stats.probes["fault_fired:" + e.site] += 1
            return "raised:InjectedFault"
        except Exception as e:  # noqa: BLE001
            if op.get("fault") and op["fault"]["site"] not in FAULTS.armed:
                self.stats.probes["fault_fired:" + op["fault"]["site"]] += 1
                return "raised:" + type(e).__name__
            if self.on("C14"):
                raise self.viol("C14.0 duplicate-raised", f"C14.0:{type(e).__name__}", f"duplicate() raised {type(e).__name__}: {e}") from None
            raise Cut(f"duplicate raised {type(e).__name__}") from None
        if self.on("C14"):
            self._check_duplicate(o, d)
        self.put(op["out"], "node", d, op.get("actor", "a0"))
        del d
        self.after_creation(pre)
        return "ok"

    def _check_duplicate(self, o: Any, d: Any) -> None:
        orig_objs = {id(x): x for x in walk(o)}
        orig_reg_ids = {x.id for x in orig_objs.values() if self.inf(x).reg}
        pos_o, pos_d = walk(o), walk(d)
        if len(pos_o) != len(pos_d):
            raise self.viol("C14.1 duplicate-shape", "C14.1:shape", f"duplicate has {len(pos_d)} positions, original {len(pos_o)}")
        try:
            same = (d == o) and (o == d)
        except Exception as e:  # noqa: BLE001
            raise self.viol("C14.1 duplicate-not-equal", "C14.1:eq-raised", f"comparing the duplicate with the original raised {type(e).__name__}: {e}") from None
        if not same:
            raise self.viol("C14.1 duplicate-not-equal", "C14.1:eq", "duplicate() result is not == to the original")
        shared = 0
        for a, b in zip(pos_o, pos_d):
            if type(a) is not type(b) or a.content_id != b.content_id:
                raise self.viol("C14.1 duplicate-content", "C14.1:content", "duplicate differs in class/content_id at some position")
            if origin_key(a.origin) != origin_key(b.origin) or a.origin != b.origin:
                raise self.viol("C14.1 duplicate-origin", "C14.1:origin", "duplicate differs in origin at some position")
            for f in U.PROP_FIELDS[cname(a)]:
                va, vb = getattr(a, f.name), getattr(b, f.name)
                if U.canon(va) != U.canon(vb) or (f.vt == "anybox" and not (va is vb or va == vb)):
                    # (Any-typed values: "equal property values" is the values' own ==, which for objects without __eq__
                    # is identity)
                    raise self.viol(
                        "C14.2 duplicate-property-value",
                        f"C14.2:{'noncompare' if not f.compare else 'compare'}:{'noninit' if not f.init else 'init'}",
                        f"duplicate differs in property {f.name} ({va!r} vs {vb!r})",
                        field=f.name,
                    )
            if id(b) in orig_objs:
                depth = "root" if b is d else "inner"
                raise self.viol(
                    "C14.3 duplicate-shares-object-with-original",
                    f"C14.3:{depth}",
                    f"duplicate() re-uses the original's {cname(b)} object instead of a newly created node",
                )
            if ASTNode.get_any(b.id) is not b:
                raise self.viol("C14.4 duplicate-node-not-registered", "C14.4:unregistered", f"a node of the duplicate ({cname(b)}) is not registered under its id")
            if b.id in orig_reg_ids:
                raise self.viol("C14.4 duplicate-id-used-by-registered-original", "C14.4:id", "a node of the duplicate uses the id of a registered node of the original")
        if len({id(x) for x in pos_o}) < len(pos_o):
            self.stats.probes["duplicate_of_tree_with_shared_subtree"] += 1
        if len(pos_o) >= 3:
            self.stats.probes["duplicate_depth_ge_2"] += 1


# ------------------------------------------------------------------------------------------------
# generation
# ------------------------------------------------------------------------------------------------


class Gen:
    """Chooses the next concrete op.  All choices come from named sub-streams of the run's Rng."""

    def __init__(self, w: World, rng: Rng):
        self.w = w
        self.rng = rng
        self.cfg = w.cfg
        self.n = 0

    # -- helpers
    def r(self, name: str):
        return self.rng.s(name)

    def pick_node_handle(self, actor: str, prefer_stale: bool = False) -> str | None:
        r = self.r("pick")
        names = [n for n, h in self.w.handles.items() if h.kind == "node"]
        if not names:
            return None
        if prefer_stale:
            stale = [n for n in names if not self.w.inf(self.w.handles[n].obj).reg]
            if stale and r.random() < 0.7:
                return r.choice(stale)
        own = [n for n in names if self.w.handles[n].owner == actor]
        if own and r.random() < 0.6:
            return r.choice(own)
        return r.choice(names)

    def pick_ref(self, actor: str, prefer_stale: bool = False, root_bias: float = 0.55) -> dict[str, Any] | None:
        h = self.pick_node_handle(actor, prefer_stale)
        if h is None:
            return None
        r = self.r("path")
        o = self.w.handles[h].obj
        path: list[list[Any]] = []
        while r.random() > root_bias:
            ch = children_of(o)
            if not ch:
                break
            f, i, o = r.choice(ch)
            path.append([f, i])
        return {"h": h, "path": path}

    def value(self, vt: str) -> Any:
        r = self.r("val")
        pool = self.cfg["pools"].get(vt) or U.pool_for(vt)
        v = r.choice(pool)
        if vt == "fs" and r.random() < 0.5 and len(v) > 1:
            order = list(v)
            r.shuffle(order)
            return {"order": order}
        return v

    def iterblock_spec(self, depth: int) -> dict[str, Any]:
        r = self.r("spec")
        cls = r.choice(["IterBlock", "IterBlock", "IterBlock2"])
        p = {"label": self.value("str")} if cls == "IterBlock2" and r.random() < 0.7 else {}
        items = [self.spec(max(depth - 1, 0)) for _ in range(r.choice([0, 1, 2]))]
        return {"c": cls, "p": p, "ch": {"items": items}, "o": r.choice(self.cfg["origins"])}

    def spec(self, depth: int, want: str = "any") -> dict[str, Any]:
        r = self.r("spec")
        cfg = self.cfg
        if want == "ab":
            raise HarnessError("use fixed pair")
        if want == "leaf":
            cls = r.choice(["LeafA", "LeafB", "LeafA2"])
        elif want == "LeafA":
            cls = r.choice(["LeafA", "LeafA2"])
        elif want == "LeafB":
            cls = "LeafB"
        elif depth <= 0 or r.random() < 0.35:
            cls = r.choice(cfg["leaf_classes"])
        else:
            cls = r.choice(cfg["inner_classes"])
        # refs to existing nodes (shared subtrees)
        if want == "any" and self.w.handles and r.random() < cfg["p_ref"]:
            ref = self.pick_ref("-", root_bias=0.5)
            if ref is not None:
                return {"ref": ref}
        p: dict[str, Any] = {}
        for f in U.PROP_FIELDS[cls]:
            if not f.init:
                continue
            if f.default is not None and r.random() < 0.5:
                continue
            p[f.name] = self.value(f.vt)
        ch: dict[str, Any] = {}
        for f in U.CHILD_FIELDS[cls]:
            if f.kind == "child" and f.vt == "iterblock":
                ch[f.name] = self.iterblock_spec(depth)
            elif f.kind == "child":
                ch[f.name] = self.spec(depth - 1)
            elif f.kind == "opt":
                if r.random() < 0.6:
                    ch[f.name] = self.spec(depth - 1, "leaf" if f.vt == "leaf" else "any")
                elif r.random() < 0.5:
                    ch[f.name] = None
            elif f.kind == "tuple":
                n = r.choice([0, 0, 1, 2, 2, 3, cfg["maxw"]]) if cls != "Falsy" else r.choice([0, 0, 0, 1, 2])
                ch[f.name] = [self.spec(depth - 1) for _ in range(min(n, cfg["maxw"]))]
            elif f.kind == "fixed":
                ch[f.name] = [self.spec(0, "LeafA"), self.spec(0, "LeafB")]
        return {"c": cls, "p": p, "ch": ch, "o": r.choice(cfg["origins"])}

    def mutate(self, spec: dict[str, Any]) -> dict[str, Any]:
        """One of the near-miss mutations of DESIGN 4.1 on a ref-free spec (returns a new spec)."""
        import copy

        r = self.r("mut")
        s = copy.deepcopy(spec)
        nodes: list[dict[str, Any]] = []

        def coll(x: Any) -> None:
            if not x or "ref" in x:
                return
            nodes.append(x)
            for v in x.get("ch", {}).values():
                if isinstance(v, list):
                    for y in v:
                        coll(y)
                else:
                    coll(v)

        coll(s)
        t = r.choice(nodes)
        kinds = ["origin", "prop", "noncompare", "class", "swap", "move", "dropchild", "none"]
        if not self.cfg["rtc"] and self.cfg["prop"] == "C01":
            kinds += ["retype", "retype"]
        m = r.choice(kinds)
        cls = t["c"]
        if m == "origin":
            # origins that share an fqn with another origin only in the runs configured for them (known finding C03.8)
            t["o"] = r.choice(list(U.ORIGINS) if self.cfg.get("exotic_origins") else U.ORIGIN_KEYS)
        elif m == "prop":
            fs = [f for f in U.PROP_FIELDS[cls] if f.init and f.compare]
            if fs:
                f = r.choice(fs)
                t["p"][f.name] = self.value(f.vt)
        elif m == "retype":
            # an ==-equal value of another type (1 / True / 1.0): "equal values of equal types"
            alt = {0: [False, 0.0], 1: [True, 1.0], 2: [2.0], 7: [7.0]}
            for f in U.PROP_FIELDS[cls]:
                if not (f.init and f.compare) or f.vt not in ("int", "float", "bool", "optint", "tint"):
                    continue
                cur = t["p"].get(f.name)
                if f.vt == "tint" and isinstance(cur, list) and cur:
                    t["p"][f.name] = {"raw_tuple": [alt.get(x, [x])[0] if not isinstance(x, bool) else int(x) for x in cur]}
                    break
                if isinstance(cur, (int, float)) and not isinstance(cur, bool) and cur in alt:
                    t["p"][f.name] = {"raw": r.choice(alt[int(cur)])}
                    break
                if isinstance(cur, bool):
                    t["p"][f.name] = {"raw": r.choice([int(cur), float(cur)])}
                    break
        elif m == "noncompare" and cls == "Meta":
            t["p"]["note"] = self.value("str")
        elif m == "class" and cls in ("LeafA", "LeafB"):
            t["c"] = "LeafB" if cls == "LeafA" else "LeafA"
        elif m == "swap":
            for f in U.CHILD_FIELDS[cls]:
                v = t["ch"].get(f.name)
                if f.kind == "tuple" and isinstance(v, list) and len(v) >= 2:
                    i, j = r.sample(range(len(v)), 2)
                    v[i], v[j] = v[j], v[i]
                    break
        elif m == "move" and cls == "Pair":
            names = ["left", "lhs", "right"]
            a, b = r.sample(names, 2)
            t["ch"][a], t["ch"][b] = t["ch"].get(b), t["ch"].get(a)
        elif m == "dropchild":
            for f in U.CHILD_FIELDS[cls]:
                if f.kind == "opt" and t["ch"].get(f.name):
                    t["ch"][f.name] = None
                    break
                if f.kind == "tuple" and t["ch"].get(f.name):
                    t["ch"][f.name] = t["ch"][f.name][:-1]
                    break
        return s

    # -- op choice
    def start_fault_script(self, actor: str) -> None:
        """A call WITH options fails part-way (property hook raises), then a default serialization is shipped to a
        fresh reader process: whatever the failed call left behind must not be in that document."""
        w = self.w
        r = self.r("fscript")
        t1, t2 = self.out() + "a", self.out() + "b"
        origin = r.choice([k for k in U.ORIGIN_KEYS if k != "no"])
        fmt = r.choice(self.cfg["formats"])
        carrier = {"c": "Seq", "p": {}, "ch": {"items": [{"c": "Carrier", "p": {"tok": "t"}, "ch": {}, "o": origin}, {"c": "LeafA", "p": {"a": "q"}, "ch": {}, "o": origin}]}, "o": origin}
        plain = {"c": "Pair", "p": {}, "ch": {"left": {"c": "LeafB", "p": {"a": "x"}, "ch": {}, "o": origin}}, "o": origin}
        deser_side = r.random() < 0.5
        p0, p1 = self.out() + "p", self.out() + "q"
        steps: list[Any] = [lambda a: {"op": "construct", "spec": carrier, "out": t1}, lambda a: {"op": "construct", "spec": plain, "out": t2}]
        if deser_side:
            steps += [
                lambda a: {"op": "ser", "n": {"h": t1, "path": []}, "fmt": fmt, "opts": "idx", "out": p0} if t1 in w.handles else None,
                lambda a: {"op": "drop", "h": t1} if t1 in w.handles else None,
                lambda a: {"op": "deser", "p": p0, "entry": "ASTNode", "out": self.out(), "fault": {"site": "tok_deser", "k": 1}} if p0 in w.handles else None,
            ]
        else:
            steps += [lambda a: {"op": "ser", "n": {"h": t1, "path": []}, "fmt": fmt, "opts": "idx", "out": p0, "fault": {"site": "tok_ser", "k": 1}} if t1 in w.handles else None]
        steps += [
            lambda a: {"op": "ser", "n": {"h": t2, "path": []}, "fmt": fmt, "opts": None, "out": p1} if t2 in w.handles else None,
            lambda a: {"op": "peer_roundtrip", "p": p1} if p1 in w.handles else None,
        ]
        self.script = steps
        self.w.stats.probes["fault_script_started"] += 1

    def start_failed_dup_script(self, actor: str) -> None:
        """A duplicate() fails half-way (a user __post_init__ raises inside the copy); afterwards another tree is
        duplicated, the copy detached, and the tree duplicated again: every copy is made of new, registered nodes."""
        w = self.w
        r = self.r("fdscript")
        o = r.choice(self.cfg["origins"])
        bt, t, d1 = self.out() + "b", self.out() + "t", self.out() + "d"
        boom = {"c": "Seq", "p": {}, "ch": {"items": [{"c": "LeafA", "p": {"a": "k"}, "ch": {}, "o": o}, {"c": "Boom", "p": {"a": "b"}, "ch": {}, "o": o}]}, "o": o}
        save = self.cfg["p_ref"]
        self.cfg["p_ref"] = 0.0
        tree = self.spec(r.choice([1, 2]))
        self.cfg["p_ref"] = save
        self.script = [
            lambda a: {"op": "construct", "spec": boom, "out": bt},
            lambda a: {"op": "construct", "spec": tree, "out": t},
            lambda a: {"op": "duplicate", "n": {"h": bt, "path": []}, "out": self.out(), "fault": {"site": r.choice(["post_init_pre", "post_init_post"]), "k": 1}} if bt in w.handles else None,
            lambda a: {"op": "duplicate", "n": {"h": t, "path": []}, "out": d1} if t in w.handles else None,
            lambda a: {"op": "detach", "n": {"h": d1, "path": []}} if d1 in w.handles else None,
            lambda a: {"op": "duplicate", "n": {"h": t, "path": []}, "out": self.out()} if t in w.handles else None,
        ]
        w.stats.probes["failed_dup_script_started"] += 1

    def start_id_repeat_script(self, actor: str) -> None:
        """The same content is created alone, dropped, and created again while a NEAR MISS of it (one property value /
        one child changed) is registered: it must get the id it got the first time."""
        w = self.w
        r = self.r("idrep")
        save = self.cfg["p_ref"]
        self.cfg["p_ref"] = 0.0
        s1 = self.spec(r.choice([0, 0, 1]))
        self.cfg["p_ref"] = save
        props = [f for f in U.PROP_FIELDS[s1["c"]] if f.init and f.compare]
        s2 = None
        if props and r.random() < 0.7:
            import copy

            f = r.choice(props)
            s2 = copy.deepcopy(s1)
            for _ in range(4):
                s2["p"][f.name] = self.value(f.vt)
                if s2["p"].get(f.name) != s1["p"].get(f.name):
                    break
        if s2 is None or s2 == s1:
            s2 = self.mutate(s1)
        if "Vals" in self.cfg["leaf_classes"] and r.random() < 0.4:
            # values that differ only in where the element boundaries are / in what repr() shows and str() hides
            o = r.choice(self.cfg["origins"])
            fld, v1, v2 = r.choice([("ts", ["a, b", "c"], ["a", "b, c"]), ("ts", ["1", "2"], ["1, 2"]), ("ts", ["'a'"], ["a"]), ("ti", [1, 2], [12]), ("tsi", ["k, 1", 1], ["k", 1])])
            s1 = {"c": "Vals", "p": {"s": "v", fld: v1}, "ch": {}, "o": o}
            s2 = {"c": "Vals", "p": {"s": "v", fld: v2}, "ch": {}, "o": o}
            if r.random() < 0.5:
                s1, s2 = s2, s1
        if r.random() < 0.15:
            # the near miss differs only in its ORIGIN: the same parts merged in the other order (unequal origins)
            import copy

            s1 = copy.deepcopy(s1)
            s1["o"] = r.choice(["m:aa", "m:ba"])
            s2 = copy.deepcopy(s1)
            s2["o"] = "m:ba" if s1["o"] == "m:aa" else "m:aa"
        a, b, c = self.out() + "i1", self.out() + "i2", self.out() + "i3"
        if "Vals" in self.cfg["leaf_classes"] and r.random() < 0.25:
            # lookalike history: an ==-equal value of another type is met FIRST, the content is created and dropped, a
            # few hundred other values go by (whatever was remembered about the first is gone), the content comes again
            o = r.choice(self.cfg["origins"])
            one = r.choice([0, 1])
            s0 = {"c": "Vals", "p": {"s": "v", "i": one}, "ch": {}, "o": o}
            s1 = {"c": "Vals", "p": {"s": "v", "f": float(one), "flag": bool(one)} if r.random() < 0.5 else {"s": "v", "ti": [], "g": float(one)}, "ch": {}, "o": o}
            if self.cfg["rtc"]:
                # runs that (may) type-check at run time never hold a False (the pinned tree rejects it: C13)
                s1["p"].pop("flag", None)
            z = self.out() + "i0"
            self.script = [
                lambda ac: {"op": "construct", "spec": s0, "out": z},
                lambda ac: {"op": "construct", "spec": s1, "out": a},
                lambda ac: {"op": "drop", "h": a} if a in w.handles else None,
                lambda ac: {"op": "gc"},
                lambda ac: {"op": "obs", "what": "churn", "n": {"h": z, "path": []}, "count": r.choice([280, 600])} if z in w.handles else None,
                lambda ac: {"op": "construct", "spec": s1, "out": c},
            ]
            w.stats.probes["id_repeat_script_started"] += 1
            return
        self.script = [
            lambda ac: {"op": "construct", "spec": s1, "out": a},
            lambda ac: {"op": "drop", "h": a} if a in w.handles else None,
            lambda ac: {"op": "gc"},
            lambda ac: {"op": "construct", "spec": s2, "out": b},
            lambda ac: {"op": "construct", "spec": s1, "out": c},
        ]
        w.stats.probes["id_repeat_script_started"] += 1

    def start_eq_history_script(self, actor: str) -> None:
        """Two trees that differ only in a grandchild's origin are compared, both die, the first is built again and
        duplicated: ids (h, h_1) are handed out again to other objects, comparisons start afresh."""
        w = self.w
        r = self.r("eqscript")
        if len(self.cfg["origins"]) < 2:
            return
        o1, o2 = r.sample(self.cfg["origins"], 2)
        leaf = {"c": "LeafA", "p": {"a": r.choice(self.cfg["pools"]["str"])}, "ch": {}, "o": o1}
        leaf2 = dict(leaf, o=o2)
        mk = lambda lf: {"c": "Pair", "p": {}, "ch": {"left": {"c": "Seq", "p": {}, "ch": {"items": [lf]}, "o": o1}, "right": {"c": "LeafB", "p": {"a": "e"}, "ch": {}, "o": o1}}, "o": o1}  # noqa: E731
        t1, t2, t3 = self.out() + "e1", self.out() + "e2", self.out() + "e3"
        self.script = [
            lambda a: {"op": "construct", "spec": mk(leaf), "out": t1},
            lambda a: {"op": "construct", "spec": mk(leaf2), "out": t2},
            lambda a: {"op": "obs", "what": "eq", "n": {"h": t1, "path": []}, "m": {"h": t2, "path": []}} if t1 in w.handles and t2 in w.handles else None,
            lambda a: {"op": "drop", "h": t1} if t1 in w.handles else None,
            lambda a: {"op": "drop", "h": t2} if t2 in w.handles else None,
            lambda a: {"op": "gc"},
            lambda a: {"op": "construct", "spec": mk(leaf), "out": t3},
            lambda a: {"op": "duplicate", "n": {"h": t3, "path": []}, "out": self.out()} if t3 in w.handles else None,
        ]
        w.stats.probes["eq_history_script_started"] += 1

    def start_shared_script(self, actor: str) -> None:
        """One node object at several positions of a tree is written, every original is lost, the document is read
        back (here and in a fresh process): it must again be ONE object at all its positions."""
        w = self.w
        r = self.r("shscript")
        o = r.choice(self.cfg["origins"])
        s, t, p = self.out() + "s", self.out() + "t", self.out() + "p"
        fmt = r.choice(self.cfg["formats"])
        save = self.cfg["p_ref"]
        self.cfg["p_ref"] = 0.0
        shared = self.spec(r.choice([0, 0, 1]) if self.cfg["prop"] == "C04" else r.choice([1, 1, 2]))
        other = self.spec(0)
        self.cfg["p_ref"] = save
        ref = {"ref": {"h": s, "path": []}}
        shape = r.choice(["pair", "seq", "deep", "union", "union"])
        if shape == "union":
            # the shared node sits in a Union-typed child field and is NOT the first alternative of the union
            shared = {"c": "LeafB", "p": {"a": r.choice(self.cfg["pools"]["str"])}, "ch": {}, "o": o}
            tree = {"c": "Mixed", "p": {}, "ch": {"items": [], "one": {"c": "Mixed", "p": {}, "ch": {"items": [], "one": other, "head": ref}, "o": o}, "head": ref}, "o": o}
        elif shape == "pair":
            tree = {"c": "Pair", "p": {}, "ch": {"left": ref, "lhs": other, "right": ref}, "o": o}
        elif shape == "seq":
            tree = {"c": "Seq", "p": {}, "ch": {"items": [ref, other, ref]}, "o": o}
        else:
            tree = {"c": "Pair", "p": {}, "ch": {"left": {"c": "Seq", "p": {}, "ch": {"items": [ref]}, "o": o}, "right": ref}, "o": o}
        opts = r.choice([None, None, "idx"])
        if self.cfg["prop"] != "C04":
            # the duplicate of a tree that holds one node object (with descendants) at several positions
            self.script = [
                lambda a: {"op": "construct", "spec": shared, "out": s},
                lambda a: {"op": "construct", "spec": tree, "out": t} if s in w.handles else None,
                lambda a: {"op": "duplicate", "n": {"h": t, "path": []}, "out": self.out()} if t in w.handles else None,
                lambda a: {"op": "obs", "what": "eq", "n": {"h": t, "path": []}, "m": {"h": s, "path": []}} if t in w.handles and s in w.handles else None,
            ]
            w.stats.probes["shared_script_started"] += 1
            return
        self.script = [
            lambda a: {"op": "construct", "spec": shared, "out": s},
            lambda a: {"op": "construct", "spec": tree, "out": t} if s in w.handles else None,
            lambda a: {"op": "ser", "n": {"h": t, "path": []}, "fmt": fmt, "opts": opts, "out": p} if t in w.handles else None,
            lambda a: {"op": "drop", "h": t} if t in w.handles else None,
            lambda a: {"op": "drop", "h": s} if s in w.handles and r.random() < 0.8 else None,
            lambda a: {"op": "deser", "p": p, "entry": r.choice(["ASTNode", "cls"]), "out": self.out()} if p in w.handles else None,
            lambda a: {"op": "peer_roundtrip", "p": p} if p in w.handles and w.peer is not None else None,
        ]
        w.stats.probes["shared_script_started"] += 1

    def start_deser_fault_script(self, actor: str) -> None:
        """A document is read back after its root is gone while parts of it live on elsewhere, and the read fails at
        a nested object AFTER those live parts were met: they must stay exactly as registered as they were."""
        w = self.w
        r = self.r("dfscript")
        o = r.choice(self.cfg["origins"])
        s, t, p = self.out() + "s", self.out() + "t", self.out() + "p"
        fmt = r.choice(self.cfg["formats"])
        shared = {"c": r.choice(["LeafA", "LeafB"]), "p": {"a": r.choice(self.cfg["pools"]["str"])}, "ch": {}, "o": o}
        if r.random() < 0.4:
            shared = {"c": "Seq", "p": {}, "ch": {"items": [shared]}, "o": o}
        items = [{"ref": {"h": s, "path": []}}, {"c": "Carrier", "p": {"tok": "t"}, "ch": {}, "o": o}, {"c": "LeafB", "p": {"a": "z"}, "ch": {}, "o": o}]
        if r.random() < 0.3:
            items[0], items[1] = items[1], items[0]
        self.script = [
            lambda a: {"op": "construct", "spec": shared, "out": s},
            lambda a: {"op": "construct", "spec": {"c": "Seq", "p": {}, "ch": {"items": items}, "o": o}, "out": t} if s in w.handles else None,
            lambda a: {"op": "ser", "n": {"h": t, "path": []}, "fmt": fmt, "opts": None, "out": p} if t in w.handles else None,
            lambda a: {"op": "drop", "h": t} if t in w.handles else None,
            lambda a: {"op": "deser", "p": p, "entry": r.choice(["ASTNode", "cls"]), "out": self.out(), "fault": {"site": "tok_deser", "k": 1}} if p in w.handles else None,
        ]
        w.stats.probes["deser_fault_script_started"] += 1

    def start_wide_script(self, actor: str) -> None:
        """Wide nodes come and go: a node with many children is dropped and collected, then another one of the same
        width is built (its child tuple may land where the dead one's was), next to a live reference copy."""
        w = self.w
        r = self.r("wide")
        steps: list[Any] = []
        for _ in range(r.choice([1, 2, 3])):
            width = r.choice([8, 9, 10, 11, 12, 13, 16])
            tl = r.random() < 0.5
            cls = r.choice(["Seq", "Seq", "SeqPlus", "Deco"])
            fld = "value" if cls == "Deco" else "items"
            o = r.choice(self.cfg["origins"])
            pool = r.sample(self.cfg["pools"]["str"] * 8 + [f"w{i}" for i in range(20)], width * 2)
            mk = lambda tag, vals: {"c": cls, "p": {}, "ch": {fld: [{"c": "LeafA", "p": {"a": v}, "ch": {}, "o": o} for v in vals]}, "o": o, "tl": tl}  # noqa: E731
            a, b = pool[:width], pool[width:]
            x, ref, y = self.out() + "x", self.out() + "r", self.out() + "y"
            steps += [
                lambda ac, x=x, a=a, mk=mk: {"op": "construct", "spec": mk("a", a), "out": x},
                lambda ac, ref=ref, b=b, mk=mk: {"op": "construct", "spec": mk("b", b), "out": ref},
                lambda ac, x=x: {"op": "drop", "h": x} if x in w.handles else None,
                lambda ac: {"op": "gc"},
                lambda ac, y=y, b=b, mk=mk: {"op": "construct", "spec": mk("b", b), "out": y},
            ]
        self.script = steps
        w.stats.probes["wide_script_started"] += 1

    def start_script(self, actor: str) -> None:
        """A persister's multi-step script, other actors' ops interleave in its gaps: serialize a node whose id carries
        a collision suffix, lose every twin (crash), read it back, then update it functionally."""
        w = self.w
        r = self.r("script")
        if self.cfg["prop"] == "C04" and self.cfg["faults"] and w.peer is not None and r.random() < 0.4:
            self.start_fault_script(actor)
            return
        if self.cfg["prop"] in ("C01", "C03", "C14") and r.random() < 0.35:
            self.start_wide_script(actor)
            return
        if self.cfg["prop"] in ("C14", "C10", "C03") and self.cfg["faults"] and r.random() < 0.25:
            self.start_failed_dup_script(actor)
            return
        if self.cfg["prop"] in ("C03", "C14") and r.random() < 0.3:
            self.start_id_repeat_script(actor)
            return
        if self.cfg["prop"] in ("C14", "C10") and r.random() < 0.3:
            self.start_shared_script(actor)
            return
        if self.cfg["prop"] in ("C14", "C10") and r.random() < 0.3:
            self.start_eq_history_script(actor)
            if getattr(self, "script", None):
                return
        if self.cfg["prop"] == "C04" and r.random() < 0.4:
            self.start_shared_script(actor)
            return
        if self.cfg["prop"] in ("C10", "C03") and self.cfg["faults"] and r.random() < (0.7 if self.cfg["prop"] == "C10" else 0.25):
            self.start_deser_fault_script(actor)
            return
        cands = [n for n, h in w.handles.items() if h.kind == "node" and _SUFFIX.match(h.obj.id) and w.inf(h.obj).reg and len(walk(h.obj)) <= 8 and cname(h.obj) in U.CLS]
        if not cands:
            # make one: a twin of some small registered tree
            base = [n for n, h in w.handles.items() if h.kind == "node" and w.inf(h.obj).reg and len(walk(h.obj)) <= 6 and cname(h.obj) in U.CLS]
            if not base:
                return
            b = r.choice(base)
            out = self.out()
            self.script = [lambda a, b=b, out=out: {"op": "construct", "spec": spec_of(w.handles[b].obj), "out": out, "twin_of": b} if b in w.handles else None]
            self.script_target = out
        else:
            self.script = []
            self.script_target = r.choice(cands)
        fmt = r.choice(self.cfg["formats"])

        def ser(a: str) -> dict[str, Any] | None:
            t = self.script_target
            if t not in w.handles or w.handles[t].kind != "node":
                self.script = []
                return None
            self.script_payload = self.out()
            return {"op": "ser", "n": {"h": t, "path": []}, "fmt": fmt, "opts": None, "out": self.script_payload}

        def crash(a: str) -> dict[str, Any] | None:
            t = self.script_target
            if t not in w.handles:
                return None
            k = w.idkey(w.handles[t].obj)
            twins = [n for n, h in w.handles.items() if h.kind == "node" and cname(h.obj) in U.CLS and w.idkey(h.obj) == k]
            if len(twins) > 1:
                self.script.insert(0, crash)  # one drop per step until every twin is gone
            return {"op": "drop", "h": twins[0]} if twins else None

        def deser(a: str) -> dict[str, Any] | None:
            p = getattr(self, "script_payload", None)
            if p not in w.handles:
                self.script = []
                return None
            self.script_result = self.out()
            return {"op": "deser", "p": p, "entry": r.choice(["ASTNode", "cls"]), "out": self.script_result}

        def update(a: str) -> dict[str, Any] | None:
            t = getattr(self, "script_result", None)
            if t not in w.handles or w.handles[t].kind != "node":
                return None
            o = w.handles[t].obj
            cls = cname(o)
            if cls == "Meta":
                ch = {"note": {"v": self.value("str")}}
            else:
                fs = [f for f in U.PROP_FIELDS[cls] if f.init and f.compare and f.vt in ("str", "int")]
                if not fs:
                    return None
                f = r.choice(fs)
                ch = {f.name: {"v": U.encode(f.vt, getattr(o, f.name))}}  # the same value again: content unchanged
            return {"op": r.choice(["replace", "replace", "duplicate"]), "n": {"h": t, "path": []}, "ch": ch, "out": self.out()}

        self.script += [ser, crash, deser, update]
        self.w.stats.probes["script_started"] += 1

    def next_op(self) -> dict[str, Any]:
        self.n += 1
        w = self.w
        cfg = self.cfg
        r = self.r("sched")
        actor = r.choice(cfg["actors"])
        if not getattr(self, "script", None) and cfg.get("scripts") and r.random() < 0.06 and any(h.kind == "node" for h in w.handles.values()):
            self.start_script(actor)
        if getattr(self, "script", None) and r.random() < 0.8:
            op = self.script.pop(0)(actor)
            if op is not None:
                op["step"] = w.step_no + 1
                op["actor"] = "persister"
                op["script"] = True
                return op
        nlive = len(w.last_reach)
        has_nodes = any(h.kind == "node" for h in w.handles.values())
        weights = dict(cfg["weights"])
        if not has_nodes:
            kind = "construct"
        else:
            if nlive > cfg["max_live"]:
                weights["drop"] = weights.get("drop", 1) * 6
                weights["construct"] = weights.get("construct", 1) * 0.2
                weights["duplicate"] = weights.get("duplicate", 1) * 0.1
            if w.stale_hint:
                weights["twin"] = weights.get("twin", 1) * 4
                weights["detach_self"] = weights.get("detach_self", 1) * 2
            kind = weighted(r, sorted(weights.items()))
        op = getattr(self, "g_" + kind)(actor)
        if op is None:
            op = self.g_construct(actor)
        op["step"] = w.step_no + 1
        op["actor"] = actor
        if op.get("twinpair") and not getattr(self, "script", None) and r.random() < 0.6:
            # the tree holding a stale node and its live twin is then used as a whole by the same actor
            t = op["out"]
            nxt = r.choice(["detach", "detach", "duplicate", "detach_self"])
            self.script = [lambda a, t=t, nxt=nxt: ({"op": nxt, "n": {"h": t, "path": []}, **({"out": self.out()} if nxt == "duplicate" else {})} if t in w.handles and cfg["weights"].get(nxt, 0) > 0 else None)]
        return op

    def out(self) -> str:
        return f"n{self.w.step_no + 1}"

    def g_construct(self, actor: str) -> dict[str, Any]:
        r = self.r("construct")
        spec = self.spec(r.choice([0, 1, 1, 2, 2, self.cfg["maxd"]]))
        if "ref" in spec:
            spec = self.spec(0)
        op: dict[str, Any] = {"op": "construct", "spec": spec, "out": self.out()}
        if self.cfg["prop"] == "C10" and not self.cfg["rtc"] and spec.get("c") in ("Seq", "SeqPlus", "Deco") and r.random() < 0.3:
            spec["as_list"] = True
        if self.cfg.get("surrogates") and r.random() < 0.3:
            # property strings with a lone surrogate: the library either refuses the construction (the pinned tree
            # does: the digest input is strict UTF-8) or has to tell such values apart like any other strings
            cls = r.choice(["LeafA", "LeafB"])
            v = r.choice([{"surr": "d800"}, {"surr": "dc80"}, {"surr": "dcff"}, "a?b", "a\ufffdb"])
            self.w.stats.probes["construction_with_lone_surrogate"] += 1
            return {"op": "construct", "spec": {"c": cls, "p": {"a": v}, "ch": {}, "o": self.cfg["origins"][0]}, "out": self.out(), **({"expect": "fail"} if isinstance(v, dict) else {})}
        if self.cfg["faults"] and r.random() < 0.03:
            # a construction that fails while a property value is being rendered for the digests (after other
            # properties were rendered already): an int too long for str()
            cls = r.choice(["Vals", "LeafA2", "Upper"])
            fld = {"Vals": "i", "LeafA2": "c", "Upper": "ID"}[cls]
            p = {f.name: self.value(f.vt) for f in U.PROP_FIELDS[cls] if f.init and f.default is None}
            p[fld] = {"pow10": 5000}
            self.w.stats.probes["construction_fails_in_digest_rendering"] += 1
            return {"op": "construct", "spec": {"c": cls, "p": p, "ch": {}, "o": r.choice(self.cfg["origins"])}, "out": self.out(), "expect": "fail"}
        if self.cfg["faults"] and _has_class(spec, "Boom") and r.random() < 0.6:
            op["fault"] = {"site": r.choice(["post_init_pre", "post_init_post"]), "k": 1}
        return op

    def g_twin(self, actor: str) -> dict[str, Any] | None:
        """Construct a content-identical (or near-miss) twin of an existing tree -- biased to stale nodes."""
        r = self.r("twin")
        w = self.w
        if w.stale_hint and r.random() < 0.7:
            hname = w.stale_hint.pop()
            if hname in w.handles and w.handles[hname].kind == "node":
                ref = {"h": hname, "path": []}
            else:
                ref = self.pick_ref(actor, prefer_stale=True)
        else:
            ref = self.pick_ref(actor, prefer_stale=True)
        if ref is None:
            return None
        o = w.node_at(ref)
        if len(walk(o)) > 14:
            return None
        spec = spec_of(o)
        if r.random() < self.cfg["p_mutate"]:
            spec = self.mutate(spec)
        return {"op": "construct", "spec": spec, "out": self.out(), "twin_of": ref["h"]}

    def g_twinpair(self, actor: str) -> dict[str, Any] | None:
        """A tree that holds a stale (detached / replaced-away) node AND its freshly built twin: two distinct
        objects with the same id at two positions, differing at most in a non-comparable field."""
        r = self.r("twinpair")
        w = self.w
        stale = [n for n, h in w.handles.items() if h.kind == "node" and not w.inf(h.obj).reg and len(walk(h.obj)) <= 6]
        if not stale:
            return self.g_detach_self(actor)
        hname = r.choice(stale)
        o = w.handles[hname].obj
        if any(w.inf(x).reg and x is not o and x.id == o.id for x in w.last_reach):
            return self.g_twin(actor)
        tw = spec_of(o)
        if tw["c"] == "Meta" and r.random() < 0.8:
            tw["p"]["note"] = self.value("str")
        items = [{"ref": {"h": hname, "path": []}}, tw]
        if r.random() < 0.5:
            items.reverse()
        if r.random() < 0.4:
            items.append(self.spec(0))
        return {"op": "construct", "spec": {"c": "Seq", "p": {}, "ch": {"items": items}, "o": r.choice(self.cfg["origins"])}, "out": self.out(), "twinpair": True}

    def g_drop(self, actor: str) -> dict[str, Any] | None:
        r = self.r("drop")
        names = list(self.w.handles)
        if not names:
            return None
        return {"op": "drop", "h": r.choice(names)}

    def g_gc(self, actor: str) -> dict[str, Any]:
        return {"op": "gc"}

    def g_detach_self(self, actor: str) -> dict[str, Any] | None:
        ref = self.pick_ref(actor, prefer_stale=self.r("ds").random() < 0.5)
        return None if ref is None else {"op": "detach_self", "n": ref}

    def g_detach(self, actor: str) -> dict[str, Any] | None:
        ref = self.pick_ref(actor, prefer_stale=self.r("dt").random() < 0.3, root_bias=0.75)
        return None if ref is None else {"op": "detach", "n": ref}

    def g_duplicate(self, actor: str) -> dict[str, Any] | None:
        ref = self.pick_ref(actor, root_bias=0.7)
        if ref is None or len(walk(self.w.node_at(ref))) > 16:
            return None
        op = {"op": "duplicate", "n": ref, "out": self.out()}
        if self.cfg["faults"] and any(cname(x) == "Boom" for x in walk(self.w.node_at(ref))) and self.r("dupf").random() < 0.5:
            # the copy fails half-way (a user __post_init__ raises): later duplicates start from a clean slate
            op["fault"] = {"site": self.r("dupf").choice(["post_init_pre", "post_init_post"]), "k": 1}
        return op

    def _gen_changes(self, o: Any, r: Any) -> dict[str, Any]:
        cls = cname(o)
        ch: dict[str, Any] = {}
        cands = [f for f in U.FIELDS[cls] if f.init]
        n = r.choice([1, 1, 1, 2, 3])
        for f in r.sample(cands, min(n, len(cands))) if cands else []:
            if f.kind == "prop":
                ch[f.name] = {"v": self.value(f.vt)}
            elif f.kind == "child" and f.vt == "iterblock":
                ch[f.name] = {"spec": self.iterblock_spec(1)}
            elif f.kind == "child":
                ch[f.name] = {"spec": self.spec(1)}
            elif f.kind == "opt":
                ch[f.name] = {"spec": None if r.random() < 0.3 else self.spec(1, "leaf" if f.vt == "leaf" else "any")}
            elif f.kind == "tuple":
                ch[f.name] = {"specs": [self.spec(1) for _ in range(r.choice([0, 1, 2]))]}
            elif f.kind == "fixed":
                ch[f.name] = {"specs": [self.spec(0, "LeafA"), self.spec(0, "LeafB")]}
        if r.random() < 0.25 or not ch:
            ch["origin"] = {"o": r.choice(self.cfg["origins"])}
        if cls == "Meta" and r.random() < 0.5:
            ch = {"note": {"v": self.value("str")}}  # only a non-comparable field changes
        return ch

    def g_dc_replace(self, actor: str) -> dict[str, Any] | None:
        ref = self.pick_ref(actor)
        if ref is None:
            return None
        o = self.w.node_at(ref)
        if cname(o) == "Boom":
            return None
        return {"op": "dc_replace", "n": ref, "ch": self._gen_changes(o, self.r("dcr")), "out": self.out()}

    def g_replace(self, actor: str) -> dict[str, Any] | None:
        r = self.r("rep")
        ref = self.pick_ref(actor, prefer_stale=r.random() < 0.3)
        if ref is None:
            return None
        o = self.w.node_at(ref)
        cls = cname(o)
        if self.cfg["faults"] and r.random() < self.cfg["p_bad_replace"]:
            bads = ["unknown", "noninit_id", "noninit_cid"]
            if cls == "Meta":
                bads.append("noninit_seq")
            if pcfg.RUNTIME_TYPE_CHECK and cls in ("LeafA", "LeafB", "LeafA2", "Boom"):
                bads.append("illtyped")
            if pcfg.RUNTIME_TYPE_CHECK and cls == "Pair":
                bads.append("illtyped_child")
            if cls == "Boom":
                bads += ["boom_pre", "boom_post", "boom_pre", "boom_post"]
            bad = r.choice(bads)
            op: dict[str, Any] = {"op": "replace", "n": ref, "expect": "fail", "bad": bad, "out": self.out()}
            if bad == "unknown":
                op["ch"] = {"nope": {"raw": 1}}
            elif bad == "noninit_id":
                op["ch"] = {"id": {"raw": "zz"}}
            elif bad == "noninit_cid":
                op["ch"] = {"content_id": {"raw": "zz"}}
            elif bad == "noninit_seq":
                op["ch"] = {"seq": {"raw": 3}}
            elif bad == "illtyped":
                op["ch"] = {"a": {"raw": 5}}
            elif bad == "illtyped_child":
                op["ch"] = {"left": {"raw": "not a node"}}
            else:
                # (half of the time only the non-comparable field changes: the replacement then takes the very id the
                # original has just vacated, and the failure comes after it was registered)
                op["ch"] = {"a": {"v": self.value("str")}} if r.random() < 0.5 else {"memo": {"v": self.value("str")}}
                op["fault"] = {"site": "post_init_pre" if bad == "boom_pre" else "post_init_post", "k": 1}
            return op
        if cls == "Boom":
            return {"op": "replace", "n": ref, "ch": {"a": {"v": self.value("str")}}, "out": self.out()}
        op2: dict[str, Any] = {"op": "replace", "n": ref, "ch": self._gen_changes(o, r), "out": self.out()}
        if self.cfg["prop"] == "C14" and r.random() < 0.5:
            op2["probe_fresh"] = True
        return op2



    # ---- part 2 generators
    def g_ser(self, actor: str) -> dict[str, Any] | None:
        r = self.r("ser")
        ref = self.pick_ref(actor, root_bias=0.7)
        if ref is None or len(walk(self.w.node_at(ref))) > 25:
            return None
        op: dict[str, Any] = {"op": "ser", "n": ref, "fmt": r.choice(self.cfg["formats"]), "opts": r.choice([None, None, "idx", "sort", "idx+sort", "explorer", "explorer+sort"]), "out": self.out()}
        if self.cfg["faults"] and self.cfg["ser_faults"] and r.random() < 0.3 and any(cname(x) == "Carrier" for x in walk(self.w.node_at(ref))):
            op["fault"] = {"site": "tok_ser", "k": r.choice([1, 1, 2])}
        if self.cfg.get("threads") and r.random() < 0.5:
            op["thread"] = True
        return op

    def g_deser(self, actor: str) -> dict[str, Any] | None:
        r = self.r("deser")
        names = [n for n, h in self.w.handles.items() if h.kind == "payload"]
        if not names:
            return self.g_ser(actor)
        op: dict[str, Any] = {"op": "deser", "p": r.choice(names), "entry": r.choice(["ASTNode", "cls"]), "out": self.out()}
        if self.cfg["faults"] and self.cfg["ser_faults"] and r.random() < 0.25:
            op["fault"] = {"site": "tok_deser", "k": r.choice([1, 1, 2])}
        if self.cfg.get("threads") and r.random() < 0.5:
            op["thread"] = True
        return op

    def g_crash(self, actor: str) -> dict[str, Any] | None:
        """Crash placed in the gap of a serialize -> deserialize script: drop (part of) the serialized tree."""
        r = self.r("crash")
        pls = [h for h in self.w.handles.values() if h.kind == "payload"]
        if not pls:
            return self.g_drop(actor)
        root = r.choice(pls).meta["snap"]["ref"]()
        cands = [n for n, h in self.w.handles.items() if h.kind == "node" and root is not None and (h.obj is root or any(x is root for x in walk(h.obj)))]
        del root
        if not cands:
            return self.g_drop(actor)
        return {"op": "drop", "h": r.choice(cands)}

    def g_peer_roundtrip(self, actor: str) -> dict[str, Any] | None:
        r = self.r("peer")
        names = [n for n, h in self.w.handles.items() if h.kind == "payload"]
        if not names or self.w.peer is None:
            return self.g_ser(actor)
        return {"op": "peer_roundtrip", "p": r.choice(names)}

    def g_twin_classes(self, actor: str) -> dict[str, Any] | None:
        if getattr(self, "_twins_done", False):
            return None
        self._twins_done = True
        return {"op": "twin_classes", "v": self.value("str")}

    def g_define_late(self, actor: str) -> dict[str, Any] | None:
        return None if "Late" in U.CLS else {"op": "define_late"}

    def g_set_config(self, actor: str) -> dict[str, Any] | None:
        r = self.r("setcfg")
        return {"op": "set_config", "rtc": r.random() < 0.5, "trace": r.random() < 0.3}

    def g_peer_source_cycles(self, actor: str) -> dict[str, Any] | None:
        r = self.r("cycles")
        if self.w.peer is None:
            return None
        batches = []
        for _ in range(r.choice([2, 2, 3, 4])):
            src = r.sample(["a", "b", "c"], r.choice([1, 1, 2, 3]))
            batches.append({"src": src, "leaves": [r.choice(src) for _ in range(r.choice([1, 2, 3]))], "idx": r.random() < 0.8})
        return {"op": "peer_source_cycles", "batches": batches, "sub_clear": r.random() < 0.3}

    def g_peer_cid(self, actor: str) -> dict[str, Any] | None:
        ref = self.pick_ref(actor, root_bias=0.7)
        if ref is None or self.w.peer is None or len(walk(self.w.node_at(ref))) > 20:
            return None
        return {"op": "peer_cid", "n": ref}

    def g_findall(self, actor: str) -> dict[str, Any] | None:
        r = self.r("findall")
        ref = self.pick_ref(actor, root_bias=0.8)
        if ref is None:
            return None
        xp = r.choice(["//LeafA", "//Expr", "/Seq/@items Expr", "//@items[1]Expr", "//Pair//LeafB", "//Falsy", "//@left Expr"])
        return {"op": "findall", "n": ref, "xpath": xp, "take": r.choice([1, 1, 2, 5]), "out": self.out()}

    def g_walkgen(self, actor: str) -> dict[str, Any] | None:
        r = self.r("walkgen")
        ref = self.pick_ref(actor, root_bias=0.8)
        if ref is None:
            return None
        return {"op": "walkgen", "n": ref, "how": r.choice(["dfs", "bfs", "gather", "dfs", "bfs", "get_properties", "get_child_nodes", "get_child_nodes_with_field", "iter_child_fields"]), "bottom_up": r.random() < 0.5, "take": r.choice([1, 2, 3]), "out": self.out()}

    def g_gen_next(self, actor: str) -> dict[str, Any] | None:
        names = [n for n, h in self.w.handles.items() if h.kind == "gen"]
        if not names:
            return self.g_findall(actor)
        return {"op": "gen_next", "h": self.r("gn").choice(names)}

    def g_tree(self, actor: str) -> dict[str, Any] | None:
        ref = self.pick_ref(actor, root_bias=0.8)
        return None if ref is None else {"op": "tree", "n": ref, "out": self.out()}

    def g_obs(self, actor: str) -> dict[str, Any] | None:
        r = self.r("obs")
        ref = self.pick_ref(actor, root_bias=0.7)
        if ref is None:
            return None
        what = r.choice(["eq", "rich", "walk", "tree", "xpath", "match", "accessors", "ser", "visit", "ser_opts", "origins", "churn"])
        if self.cfg["prop"] == "C04":
            what = "ser_opts"
        if self.cfg["prop"] in ("C14", "C01"):
            what = r.choice(["churn", "churn", "eq", "accessors"])
        op: dict[str, Any] = {"op": "obs", "n": ref, "what": what}
        if what == "ser_opts":
            op["optset"] = [k for k in ("skip", "sort", "test", "explorer", "idx") if r.random() < 0.4]
            op["fmt"] = r.choice(list(FORMATS))
        if what in ("eq", "origins"):
            op["m"] = self.pick_ref(actor) or ref
        if what == "churn":
            op["count"] = r.choice([280, 300, 600])
        if what == "xpath":
            op["xpath"] = r.choice(["//LeafA", "/Pair/@left Expr", "//@items[0]Expr", "//Seq//LeafB"])
        if what == "match":
            op["pattern"] = r.choice(
                [
                    "(* @origin -> o)",
                    "(LeafA @a=\"q\" -> v)",
                    "(Seq @items=[(LeafA) * -> rest])",
                    "(Pair @left=(*) -> l @right=$l)",
                    # field names that are also names of (zero-argument) methods of every node: only attribute presence
                    "(* @detach_self)",
                    "(* @detach -> d)",
                    "(* @duplicate @replace)",
                    "(* @to_tree -> t @children)",
                ]
            )
        if what == "ser":
            op["opts"] = r.choice([None, "idx"])
        if what == "visit":
            op["rules"] = {c: "keep" for c in r.sample(["Expr", "LeafA", "Seq", "Pair", "LeafB", "Falsy", "LeafA2"], 3)}
            op["strict"] = r.random() < 0.5
            op["vshape"] = r.choice(["flat", "flat", "base", "split", "validate", "mixin", "second_base", "late", "late_strict"])
        return op

    def g_poke(self, actor: str) -> dict[str, Any] | None:
        r = self.r("poke")
        ref = self.pick_ref(actor)
        if ref is None:
            return None
        o = self.w.node_at(ref)
        f = r.choice(["id", "content_id", "origin"] + [x.name for x in U.FIELDS[cname(o)]])
        return {"op": "poke", "n": ref, "field": f, "how": r.choice(["set", "del"])}

    def gen_rules(self, o: Any) -> dict[str, Any]:
        r = self.r("rules")
        present = sorted({cname(x) for x in walk(o)})
        cands = sorted(set(present) | {"Expr", "Seq", "LeafA", "ASTNode"})
        n = r.choice([1, 1, 2, 3])
        rules: dict[str, Any] = {}
        for c in r.sample(cands, min(n, len(cands))):
            kinds = ["keep", "rewrite", "rewrite", "rewrite_tc", "fresh", "existing", "remove", "remove", "busy"]
            if self.cfg["faults"]:
                kinds.append("raise")
            k = r.choice(kinds)
            if k == "busy":
                rules[c] = ["busy", r.choice(["ser", "walk", "xpath", "accessors", "visit", "dup"])]
                continue
            if k == "raise" and r.random() < 0.6:
                rules[c] = ["raise", r.choice(sorted(_EXC))]
                continue
            if k in ("rewrite", "rewrite_tc"):
                fs = [f for f in U.PROP_FIELDS[c] if f.init and f.vt in ("str", "int")]
                if not fs:
                    k = "keep"
                else:
                    f = r.choice(fs)
                    rules[c] = [k, f.name, self.value(f.vt)]
                    continue
            if k == "fresh":
                save = self.cfg["p_ref"]
                self.cfg["p_ref"] = 0.0
                rules[c] = ["fresh", self.spec(r.choice([0, 0, 1]))]
                self.cfg["p_ref"] = save
                continue
            if k == "existing":
                ref = self.pick_ref("-")
                if ref is None:
                    k = "keep"
                else:
                    rules[c] = ["existing", ref]
                    continue
            rules[c] = k
        return rules

    def g_transform(self, actor: str) -> dict[str, Any] | None:
        r = self.r("transform")
        ref = self.pick_ref(actor, root_bias=0.75)
        if ref is None:
            return None
        o = self.w.node_at(ref)
        if len(walk(o)) > 25:
            return None
        op: dict[str, Any] = {"op": "transform", "n": ref, "rules": self.gen_rules(o), "strict": r.random() < 0.4, "vshape": r.choice(["flat", "flat", "base", "split", "validate", "mixin", "second_base", "late", "late_strict"]), "out": self.out()}
        if self.cfg["faults"]:
            op["enum"] = True
        if self.cfg["faults"] and r.random() < 0.08:
            # burst: a raising rule for a class that occurs (deep) in ANOTHER tree only
            other = self.pick_ref(actor, root_bias=0.9)
            if other is not None:
                t2 = self.w.node_at(other)
                here = {cname(x) for x in walk(o)}
                only = sorted({cname(x) for x in walk(t2)[1:]} - here - {c for cl in here for c in U.MRO[cl]})
                only = [c for c in only if not any(c in U.MRO[h] for h in here)]
                if only and len(walk(t2)) <= 25:
                    c = r.choice(only)
                    op["rules"] = {k: v for k, v in op["rules"].items() if k not in ("ASTNode", "Expr") and k not in U.MRO[c]}
                    op["rules"][c] = ["raise", r.choice(sorted(_EXC))]
                    op["burst"] = {"on": other, "n": r.choice([30, 150, 300])}
                    op.pop("enum", None)
        return op


def _has_class(spec: Any, cls: str) -> bool:
    if not spec or "ref" in spec:
        return False
    if spec["c"] == cls:
        return True
    for v in spec.get("ch", {}).values():
        if isinstance(v, list):
            if any(_has_class(x, cls) for x in v):
                return True
        elif _has_class(v, cls):
            return True
    return False


# ------------------------------------------------------------------------------------------------
# configuration (swarm) and the run entry points
# ------------------------------------------------------------------------------------------------

_OBS = {"findall": 1.0, "walkgen": 0.7, "gen_next": 0.7, "tree": 0.5, "obs": 2.0}
BASE_WEIGHTS = {
    "C03": {"construct": 5, "twin": 4, "twinpair": 1.2, "drop": 3, "gc": 0.5, "detach_self": 4, "detach": 2.5, "duplicate": 2, "dc_replace": 2, "replace": 4,
            "ser": 1.5, "deser": 2, "crash": 1, "transform": 1, **_OBS},
    "C14": {"construct": 5, "twin": 3, "twinpair": 1.5, "drop": 2, "detach_self": 2.5, "detach": 1, "duplicate": 5, "dc_replace": 4, "replace": 5, "ser": 1.5, "deser": 1.5,
            "crash": 1.0, "obs": 0.6},
    "C10": {"construct": 5, "twin": 2, "twinpair": 0.8, "drop": 2, "detach_self": 2, "detach": 1.5, "duplicate": 3, "dc_replace": 3, "replace": 3,
            "ser": 2, "deser": 2.5, "crash": 0.5, "transform": 3, "poke": 2, "findall": 1.5, "walkgen": 1, "gen_next": 1, "tree": 1, "obs": 5},
    "C01": {"construct": 6, "twin": 6, "drop": 2, "detach_self": 1.5, "detach": 1, "duplicate": 2, "dc_replace": 3, "replace": 2,
            "ser": 1, "deser": 1, "peer_cid": 1.5, "transform": 0.5, "obs": 0.5},
    "C04": {"construct": 5, "twin": 3, "drop": 2, "crash": 3, "detach_self": 1.5, "detach": 1, "duplicate": 1, "dc_replace": 1, "replace": 1.5,
            "ser": 6, "deser": 7, "peer_roundtrip": 1.0, "peer_source_cycles": 0.4, "obs": 1.0},
    "C09": {"construct": 5, "twin": 2, "drop": 2, "detach_self": 1.5, "detach": 1, "duplicate": 1, "replace": 1, "transform": 8, "obs": 0.5},
}


def make_config(rseed: int, prop: str, tier: str, faults: bool) -> dict[str, Any]:
    rng = Rng(rseed)
    r = rng.s("config")
    digest = r.choice([1, 2, 8, 8, 16]) if prop in ("C03", "C14", "C10", "C04", "C09") else r.choice([8, 8, 16, 32])
    if prop == "C01" and r.random() < 0.15:
        digest = r.choice([1, 2])  # distinct contents collide by design: only "equal content => equal content_id" is judged
    rtc = r.random() < 0.3 and prop not in ("C09",)
    nstr = r.choice([2, 3, 4, 6])
    strpool = r.sample(U.STR_POOL, nstr)
    if prop == "C01" and r.random() < 0.5:
        # bias to separator-bearing strings
        strpool = r.sample([s for s in U.STR_POOL if set(":=()[]@<>") & set(s)] + ["1", "2", "3"], min(5, nstr + 1))
    if (prop == "C01" and r.random() < 0.3) or (prop == "C03" and r.random() < 0.2):
        # collision kit: strings that move a separator run from one field into its neighbour
        e = r.choice(["", "", "\\", "\\\\", ")", "\\)"] if prop == "C01" else ["", "\\", "\\", "\\\\", ")", "\\)"])  # optionally with the digest's own escape characters
        infix = "):b=<class 'str'>("
        strpool = ["1" + infix + "2" + e, "3", "1" + e, "2" + infix + "3"] + r.sample(U.STR_POOL, 1)
    leafs = ["LeafA", "LeafB", "LeafA2", "Meta"]
    extra = ["Vals", "Carrier", "Boom", "Serial", "Upper", "Lit", "Located", "Typed", "Dyn", "CaseMix", "Both"]
    extra.append("LocalLeaf")
    if prop in ("C01", "C03", "C09", "C10", "C14"):
        extra.append("Hook")
        if r.random() < 0.15:
            leafs += ["Hook", "Hook"]
    if prop == "C01":
        extra.append("EnumBag")
        if r.random() < 0.2:
            leafs += ["EnumBag", "EnumBag"]
    if prop in ("C10", "C14"):
        extra.append("AnyBox")
        if r.random() < 0.2:
            leafs += ["AnyBox", "AnyBox"]
    if prop in ("C01", "C03"):
        extra.append("FS2")
    if prop in ("C01",):
        extra.append("FS")
        if r.random() < 0.25:
            leafs += ["Dyn", "Dyn"]
    if prop in ("C04", "C14") and r.random() < 0.85:
        # Serial carries an init=False field with a per-instance default_factory value: duplicate() and
        # deserialization re-run the factory (known findings C14 / C04) -- keep it to a minority of runs
        extra.remove("Serial")
    if prop == "C09":
        leafs += ["Lit"]
        if r.random() < 0.3:
            leafs += ["Dyn", "Both"]
    if prop == "C14" and r.random() < 0.4:
        leafs += ["Both", "Located"]
    if prop == "C03" and r.random() < 0.3:
        leafs += ["Dyn"]
    if prop == "C01" and r.random() < 0.3:
        leafs += ["CaseMix", "CaseMix"]
    if prop == "C04":
        leafs += ["Vals", "Vals"]
    leafs += r.sample(extra, r.choice([0, 1, 2, 3, len(extra)]))
    if faults and "Boom" not in leafs and r.random() < 0.5:
        leafs.append("Boom")
    inner = r.sample(U.INNER_CLASSES, r.choice([2, 3, 5]))
    pools: dict[str, Any] = {"str": strpool, "int": r.sample(U.INT_POOL, 3), "float": r.sample(U.FLOAT_POOL, 3)}
    if prop == "C04":
        pools["float"] = r.sample(U.FLOAT_POOL + [-0.0], 4)
        pools["int"] = r.sample(U.INT_POOL, 4)
    if prop in ("C01", "C03", "C04", "C14") and r.random() < 0.12:
        # swarm: canonically equivalent but unequal strings (NFC / NFD, compatibility signs) side by side
        strpool = strpool[:2] + r.sample(["caf\u00e9", "cafe\u0301", "\u212b", "\u00c5", "\u2126", "\u03a9", "\uac00", "\u1100\u1161"], 4)
        pools["str"] = strpool
    if prop in ("C01", "C03") and r.random() < 0.1:
        # swarm: long texts next to their own checksums (content hashes are ordinary property values)
        import hashlib

        long = r.choice(["L" * 1300, "ab" * 2600, "x" * 70000])
        strpool = strpool[:2] + [long, hashlib.blake2b(long.encode()).hexdigest(), hashlib.sha256(long.encode()).hexdigest(), hashlib.blake2b(long.encode(), digest_size=32).hexdigest()]
        pools["str"] = strpool
    if prop in ("C04", "C16") and r.random() < 0.2:
        # swarm: strings that plain-scalar resolvers of text formats like to read as something else
        strpool = strpool[:2] + r.sample(["1e3", "7E-2", "12e45", "0x1F", "1_000", "yes", "No", "null", "~", "1:30", "0o17", ".inf", "2001-01-01", "=", "<<", "- a", "a: b", "#c", " lead", "trail ", "'q'", '"dq"', "\\n", "multi\nline"], 5)
        pools["str"] = strpool
    if prop in ("C01", "C03", "C14", "C10") and r.random() < 0.2:
        # swarm: ==-equal values of different types side by side (1 / 1.0 / True, 0 / 0.0 / False) in a value-rich class
        leafs += ["Vals", "Vals"]
        pools["int"] = [0, 1, r.choice(U.INT_POOL)]
        pools["float"] = [0.0, 1.0, r.choice(U.FLOAT_POOL)]
    if rtc:
        pools["bool"] = [True]  # is_instance(False, bool) is False on the pinned tree (C13, not decided here)
    weights = dict(BASE_WEIGHTS.get(prop, BASE_WEIGHTS["C03"]))
    # swarm: disable / boost some op kinds
    for k in list(weights):
        x = r.random()
        if k in ("construct",):
            continue
        if x < 0.12:
            weights[k] = 0.0
        elif x < 0.3:
            weights[k] *= 3
    if not any(weights.get(k, 0) > 0 for k in ("drop", "detach_self", "detach", "replace")):
        weights["drop"] = 2
    if prop in ("C03", "C10", "C01") and r.random() < 0.25:
        weights["define_late"] = 0.6
    if prop == "C01" and r.random() < 0.15:
        weights["twin_classes"] = 1.0
    if rtc and r.random() < 0.4:
        weights["set_config"] = 1.5  # only in runs whose values are well-typed throughout
    gcmode = "defer" if (prop == "C03" and r.random() < 0.15) else "exact"
    if gcmode == "defer":
        weights["gc"] = 3.0
    exotic = prop == "C04" or (prop == "C03" and r.random() < 0.08)
    origins = r.sample(U.ORIGIN_KEYS, r.choice([1, 2, 3])) + (r.sample(U.EXTRA_ORIGIN_KEYS, r.choice([1, 2, 3])) + ["g:a"] if prop == "C04" and r.random() < 0.4 else [])
    if exotic and prop == "C03":
        origins = r.choice([["c:a:0-5", "c:a:0-5@l2"], ["g:a", "c:a:0-0"]])
    if prop == "C14" and r.random() < 0.08:
        # unequal origins that share one fqn: replace(origin=...) must store the GIVEN origin
        origins = r.choice([["c:a:0-5", "c:a:0-5@l2", "no"], ["g:a", "c:a:0-0", "x:b:/r"]])
        exotic = True
    return {
        "machine": NAME,
        "prop": prop,
        "digest": digest,
        "rtc": rtc,
        # deferred collector (C03 only, narrowly relaxed oracle): garbage held by exception tracebacks stays
        # registered until the scheduler's next explicit gc op
        "gc": gcmode,
        "faults": faults,
        "actors": [f"a{i}" for i in range(r.choice([1, 2, 2, 3, 4]))],
        "steps": r.choice([12, 25, 40, 60]) if tier == "thorough" else r.choice([12, 25, 40]),
        "maxd": r.choice([2, 3, 4]),
        "maxw": r.choice([2, 3, 4]),
        "max_live": r.choice([25, 40, 70]),
        "p_ref": r.choice([0.05, 0.15, 0.3]) if prop == "C04" else r.choice([0.0, 0.05, 0.15]),
        "p_mutate": r.choice([0.1, 0.4, 0.7]) if prop == "C01" else r.choice([0.0, 0.1, 0.3]),
        "p_bad_replace": r.choice([0.2, 0.4]),
        "leaf_classes": leafs,
        "inner_classes": inner,
        "origins": origins,
        "pools": pools,
        "weights": weights,
        "formats": r.sample(list(FORMATS), r.choice([1, 2, 4])),
        "dyn_redefine": "Dyn" in leafs and r.random() < 0.6,
        "reuse_visitors": r.random() < 0.5,
        "threads": prop in ("C04", "C10", "C03") and r.random() < 0.3,
        "dyn_keep_old": prop == "C03" and r.random() < 0.5,
        "scripts": prop in ("C14", "C04", "C03", "C01", "C10") and r.random() < 0.6,
        "trace_logging": (tl := r.random() < 0.12),
        "debug_logger": tl and r.random() < 0.6,
        "exotic_origins": exotic,
        "surrogates": prop == "C01" and r.random() < 0.08,
        "ser_faults": prop in ("C03", "C10", "C04"),
    }


def run(cfg: dict[str, Any], prop: str, rseed: int | None = None, ops: list[dict[str, Any]] | None = None, peer: Any = None) -> dict[str, Any]:
    """Execute one run: generate from rseed, or replay the given concrete ops."""
    w = World(cfg, prop, peer)
    violation = None
    cut = None
    try:
        if ops is None:
            assert rseed is not None
            g = Gen(w, Rng(rseed))
            for _ in range(cfg["steps"]):
                try:
                    op = g.next_op()
                except SkipOp:
                    # the generator met something it cannot describe (e.g. a library-internal node class that took over
                    # an id at digest size 1): nothing was executed, draw the next op
                    g.script = []
                    w.stats.skipped += 1
                    continue
                w.step(op)
        else:
            for op in ops:
                w.step(dict(op))
    except Violation as v:
        violation = v.as_dict()
    except Cut as c:
        cut = c.why
    out = w.stats.as_dict()
    out["ops"] = w.trace
    out["violation"] = violation
    out["cut"] = cut
    out["faults_fired"] = dict(FAULTS.fired)
    out["faults_armed"] = dict(FAULTS.armed_count)
    out["nontrivial"] = nontrivial(prop, w)
    return out


def nontrivial(prop: str, w: World) -> bool:
    p = w.stats.probes
    k = w.stats.opkinds
    if prop == "C03":
        return p.get("twin_created", 0) > 0 and (k.get("detach_self", 0) + k.get("detach", 0) + k.get("replace", 0) + k.get("drop", 0)) > 0
    if prop == "C14":
        return (k.get("duplicate", 0) + k.get("replace", 0) + k.get("dc_replace", 0)) > 0
    if prop == "C10":
        return w.stats.steps >= 5 and len(k) >= 3
    if prop == "C01":
        return p.get("twin_created", 0) > 0 or w.stats.steps >= 5
    if prop == "C04":
        return p.get("deser_recreated", 0) + p.get("deser_reused_all", 0) + p.get("fresh_process_roundtrip", 0) > 0
    if prop == "C09":
        return k.get("transform", 0) > 0
    return w.stats.steps >= 3


# ================================================================================================
# part 2: serialization (C04), observers / generators / poke (C10, C03), transform (C09)
# ================================================================================================
import base64  # noqa: E402

from pyoak.origin import SOURCE_OPTIMIZED_SERIALIZATION_KEY, NoOrigin, NoPosition, NoSource, Source  # noqa: E402
from pyoak.serialize import SerializationOption  # noqa: E402
from pyoak.tree import Tree as PTree  # noqa: E402
from pyoak.visitor import ASTTransformVisitor, ASTVisitor  # noqa: E402

FORMATS = ("dict", "json", "msgpack", "yaml", "jsonb", "jsonb2")  # jsonb / jsonb2: to_jsonb plain / indented, read by from_json


def snap_tree(o: Any, shared: dict[int, int], counter: list[int], with_ref: bool = True) -> dict[str, Any]:
    """Harness-side snapshot of a tree for the round-trip oracle (never pyoak's own serializer)."""
    idx = counter[0]
    counter[0] += 1
    first = shared.setdefault(id(o), idx)
    cls = cname(o)
    node: dict[str, Any] = {
        "cls": cls,
        "id": o.id,
        "cid": o.content_id,
        "props": {f.name: repr(U.canon(getattr(o, f.name))) for f in U.PROP_FIELDS[cls]},
        "okey": origin_key(o.origin),
        "no_origin_singleton": (o.origin is NO_ORIGIN) if isinstance(o.origin, NoOrigin) else None,
        "pos": idx,
        "same_as": first,
        "children": [[f, i, snap_tree(c, shared, counter, with_ref)] for f, i, c in children_of(o)],
    }
    if with_ref:
        node["ref"] = weakref.ref(o)
    return node


def snap_strip(s: dict[str, Any]) -> dict[str, Any]:
    return {k: ([[f, i, snap_strip(c)] for f, i, c in v] if k == "children" else v) for k, v in s.items() if k != "ref"}


def in_fresh_thread(fn: Any) -> Any:
    """Run fn() in a newly started thread that is joined at once (calls by different caller threads, one after the
    other: still a deterministic sequence)."""
    import threading

    box: dict[str, Any] = {}

    def run() -> None:
        try:
            box["ret"] = fn()
        except BaseException as e:  # noqa: BLE001
            box["exc"] = e

    t = threading.Thread(target=run, name="caller")
    t.start()
    t.join()
    if "exc" in box:
        raise box["exc"]
    return box["ret"]


UNSERIALIZABLE = ("EnumBag", "AnyBox")  # universe classes with Any-typed values that the serializers need not support


def unserializable(o: Any) -> bool:
    return any(cname(x) in UNSERIALIZABLE for x in walk(o))


def serialize(o: Any, fmt: str, opts: dict[str, Any] | None) -> Any:
    if fmt == "dict":
        return o.as_dict(serialization_options=opts)
    if fmt == "json":
        return o.to_json(serialization_options=opts)
    if fmt == "msgpack":
        return o.to_msgpck(serialization_options=opts)
    if fmt == "yaml":
        return o.to_yaml(serialization_options=opts)
    if fmt in ("jsonb", "jsonb2"):
        return o.to_jsonb(indent=fmt == "jsonb2", serialization_options=opts)
    raise HarnessError(fmt)


def deserialize(cls: Any, data: Any, fmt: str, opts: dict[str, Any] | None) -> Any:
    if fmt == "dict":
        return cls.as_obj(data, serialization_options=opts)
    if fmt in ("json", "jsonb", "jsonb2"):
        return cls.from_json(data, serialization_options=opts)
    if fmt == "msgpack":
        return cls.from_msgpck(data, serialization_options=opts)
    if fmt == "yaml":
        return cls.from_yaml(data, serialization_options=opts)
    raise HarnessError(fmt)


def ser_opts(name: str | None) -> dict[str, Any] | None:
    if name == "idx":
        return {SOURCE_OPTIMIZED_SERIALIZATION_KEY: True}
    if name == "sort":
        return {SerializationOption.SORT_KEYS: True}
    if name == "idx+sort":
        return {SOURCE_OPTIMIZED_SERIALIZATION_KEY: True, SerializationOption.SORT_KEYS: True}
    if name in ("explorer", "explorer+sort"):
        from pyoak.node import AST_SERIALIZE_DIALECT_KEY, ASTSerializationDialects

        d = {AST_SERIALIZE_DIALECT_KEY: ASTSerializationDialects.AST_EXPLORER}
        if name.endswith("sort"):
            d[SerializationOption.SORT_KEYS] = True
        return d
    return None


def payload_to_json(data: Any, fmt: str) -> Any:
    if fmt in ("msgpack", "jsonb", "jsonb2"):
        return {"b64": base64.b64encode(data).decode("ascii")}
    return data


def payload_from_json(j: Any, fmt: str) -> Any:
    if fmt in ("msgpack", "jsonb", "jsonb2"):
        return base64.b64decode(j["b64"])
    return j


class _UserError(Exception):
    """Raised by a universe visitor whose rule is 'raise'."""


_EXC = {
    "AttributeError": AttributeError,
    "KeyError": KeyError,
    "TypeError": TypeError,
    "ValueError": ValueError,
    "LookupError": LookupError,
    "IndexError": IndexError,
    "RuntimeError": RuntimeError,
    "StopIteration": StopIteration,  # e.g. next() on an exhausted fresh-name iterator inside a rule
}


def _mk_visit(cls_name: str, rule: Any, world: "World"):
    def visit(self, node):  # noqa: ANN001
        FAULTS.hit("visit")
        self.log.append((cls_name, cname(node)))
        if isinstance(rule, list) and rule[0] == "rewrite_tc":
            # the documented helper style: transform the children, add own changes to the returned mapping
            f = next(x for x in U.PROP_FIELDS[cls_name] if x.name == rule[1])
            changes = self._transform_children(node)
            changes[rule[1]] = U.decode(f.vt, rule[2])  # type: ignore[index]
            return dataclasses.replace(node, **changes)
        kind = rule if isinstance(rule, str) else rule[0]
        if kind == "busy":
            # a visit method that itself uses the library on the node it was given (re-entrancy), then keeps it
            how = rule[1]
            if how == "ser":
                try:
                    node.as_dict()
                    node.to_json()
                except Exception:  # noqa: BLE001
                    pass
            elif how == "walk":
                _ = [x.node.id for x in node.dfs()], [x.node.id for x in node.bfs()], node.to_tree().root
            elif how == "xpath":
                _ = list(node.findall("//LeafA")), node.find("//Seq")
            elif how == "accessors":
                _ = list(node.get_properties()), list(node.get_child_nodes()), node.to_properties_dict()
            elif how == "visit":
                # a nested, independent visitor run on the same subtree
                make_visitor({"LeafA": "keep"}, False, world, transform=True).transform(node)
            elif how == "dup":
                node.duplicate()
            world.stats.probes["library_used_inside_visit:" + how] += 1
            kind = "keep"
        base = self.generic_visit(node)
        if kind == "keep":
            return base
        if kind == "remove":
            return None
        if kind == "raise":
            raise _EXC.get(rule[1] if isinstance(rule, list) else "", _UserError)(cls_name)
        if kind == "rewrite":
            f = next(x for x in U.PROP_FIELDS[cls_name] if x.name == rule[1])
            return dataclasses.replace(base, **{rule[1]: U.decode(f.vt, rule[2])})
        if kind == "fresh":
            return world.build(rule[1])
        if kind == "existing":
            return world.node_at(rule[1])
        raise HarnessError(f"bad rule {rule}")

    visit.__name__ = "visit_" + cls_name
    return visit


def _shape(V0: Any, name: str, ns: dict[str, Any], shape: str) -> Any:
    """How the visit methods are spread over the visitor's class hierarchy: flat (all on the class), base (all on a
    base visitor class, the instantiated class defines none), split (half / half, `strict` set on the base only),
    validate (flat, annotated `node: <Class>`, defined with validate=True)."""
    meths = sorted(k for k in ns if k.startswith("visit_"))
    if shape == "base":
        B = type(name + "Base", (V0,), ns)
        return type(name, (B,), {})
    if shape == "split":
        lower = {k: ns[k] for k in meths[::2]}
        upper = {k: v for k, v in ns.items() if k not in lower}
        B = type(name + "Base", (V0,), upper)
        return type(name, (B,), lower)
    if shape == "mixin":
        # the rule methods live in a plain class (no visitor) that is mixed in before the visitor base
        R = type(name + "Rules", (), {k: ns[k] for k in meths})
        return type(name, (R, V0), {k: v for k, v in ns.items() if k not in meths})
    if shape == "second_base":
        # two visitor bases, the rule methods sit on the second one
        A = type(name + "A", (V0,), {k: v for k, v in ns.items() if k not in meths})
        B = type(name + "B", (V0,), {k: ns[k] for k in meths})
        return type(name, (A, B), {})
    if shape == "late":
        # rule methods attached after the class was created
        V = type(name, (V0,), {k: v for k, v in ns.items() if k not in meths})
        for k in meths:
            setattr(V, k, ns[k])
        return V
    if shape == "late_strict":
        # the class is created with the inherited default and made strict / non-strict afterwards (a type-level
        # setting all the same: the library has to read it when it dispatches, not when the class is created)
        V = type(name, (V0,), {k: v for k, v in ns.items() if k != "strict"})
        V.strict = ns["strict"]
        return V
    if shape == "validate":
        for k in meths:
            ns[k].__annotations__ = {"node": k[6:]}
        import types as _types

        return _types.new_class(name, (V0,), {"validate": True}, lambda d: d.update(ns))
    return type(name, (V0,), ns)


def make_visitor(rules: dict[str, Any], strict: bool, world: "World", transform: bool = True, shape: str = "flat") -> Any:
    if world.cfg.get("reuse_visitors"):
        # users keep their visitor objects: one object per rule set for the whole run
        key = json.dumps([rules, strict, transform, shape], sort_keys=True, default=str)
        cache = world.__dict__.setdefault("_visitors", {})
        if key in cache:
            world.stats.probes["visitor_object_reused"] += 1
            cache[key].log = []
            return cache[key]
        v = _make_visitor(rules, strict, world, transform, shape)
        cache[key] = v
        return v
    return _make_visitor(rules, strict, world, transform, shape)


def _make_visitor(rules: dict[str, Any], strict: bool, world: "World", transform: bool = True, shape: str = "flat") -> Any:
    ns: dict[str, Any] = {"strict": strict}
    for cls_name, rule in rules.items():
        ns["visit_" + cls_name] = _mk_visit(cls_name, rule, world)
    if transform:
        V = _shape(ASTTransformVisitor, "RuleVisitor", ns, shape)
    else:
        def generic_visit(self, node):  # noqa: ANN001
            self.log.append(("generic", cname(node)))
            return "generic"

        ns2: dict[str, Any] = {"strict": strict, "generic_visit": generic_visit}
        for cls_name in rules:
            def mk(cn: str):
                def visit(self, node):  # noqa: ANN001
                    self.log.append((cn, cname(node)))
                    return cn
                visit.__name__ = "visit_" + cn
                return visit
            ns2["visit_" + cls_name] = mk(cls_name)
        V = _shape(ASTVisitor, "LogVisitor", ns2, shape)
    v = V()
    v.log = []
    return v


def rule_for(cls: str, rules: dict[str, Any], strict: bool) -> tuple[str | None, Any]:
    if strict:
        return (cls, rules[cls]) if cls in rules else (None, None)
    for c in list(U.MRO[cls]) + ["ASTNode"]:
        if c in rules:
            return c, rules[c]
    return None, None


def _w2(name):  # attach part-2 methods to World
    def deco(fn):
        setattr(World, name, fn)
        return fn
    return deco


@_w2("op_ser")
def op_ser(self: World, op: dict[str, Any]) -> str:
    o = self.node_at(op["n"])
    fmt = op["fmt"]
    try:
        if op.get("thread"):
            data = in_fresh_thread(lambda: serialize(o, fmt, ser_opts(op.get("opts"))))
            self.stats.probes["call_from_fresh_thread"] += 1
        else:
            data = serialize(o, fmt, ser_opts(op.get("opts")))
    except InjectedFault as e:
        self.stats.probes["fault_fired:" + e.site] += 1
        return "raised:InjectedFault"
    except Exception as e:  # noqa: BLE001
        if op.get("fault") and op["fault"]["site"] not in FAULTS.armed:
            self.stats.probes["fault_fired:" + op["fault"]["site"]] += 1
            return "raised:" + type(e).__name__
        if self.on("C04"):
            raise self.viol("C04.0 serialize-raised", f"C04.0:ser:{fmt}:{type(e).__name__}", f"{fmt} serialization raised {type(e).__name__}: {e}") from None
        if unserializable(o):
            return "raised:unsupported-value"  # never part of a C04 run; the frame conditions are still checked
        raise Cut(f"serialize raised {type(e).__name__}: {e}") from None
    shared: dict[int, int] = {}
    snapshot = snap_tree(o, shared, [0])
    sources = Source.all_as_dict() if "idx" in (op.get("opts") or "") else None
    self.put(op["out"], "payload", data, op.get("actor", "a0"), {"fmt": fmt, "opts": op.get("opts"), "snap": snapshot, "sources": sources, "root_cls": cname(o)})
    if len(shared) < len(walk(o)):
        self.stats.probes["ser_tree_with_shared_subtree"] += 1
    return "ok"


def _flatten(s: dict[str, Any]) -> list[dict[str, Any]]:
    out = [s]
    for _f, _i, c in s["children"]:
        out.extend(_flatten(c))
    return out


@_w2("op_deser")
def op_deser(self: World, op: dict[str, Any]) -> str:
    h = self.handles.get(op["p"])
    if h is None or h.kind != "payload":
        raise SkipOp("no payload")
    fmt, opts, snapshot = h.meta["fmt"], h.meta["opts"], h.meta["snap"]
    if any(x["cls"] in UNSERIALIZABLE for x in _flatten(snapshot)):
        # Any-typed values that the formats do not carry exactly (tuples, sets, enum members): the re-created node would
        # sit under the serialized id with OTHER content, which no registry / id oracle of the harness models
        raise SkipOp("payload of a class that does not round-trip")
    entry = ASTNode if op.get("entry") == "ASTNode" else U.CLS[h.meta["root_cls"]]
    judge = self.on("C04")
    pre_objs: set[int] = set()
    plan: dict[int, str] = {}
    if judge:
        pre_objs = {id(v) for v in list(NODE_REGISTRY.values())} | {id(o) for o in self.last_reach}
        flat = _flatten(snapshot)
        by_id: dict[str, set[int]] = {}
        for s in flat:
            by_id.setdefault(s["id"], set()).add(s["same_as"])
        for s in flat:
            orig = s["ref"]()
            pre = ASTNode.get_any(s["id"])
            if len(by_id[s["id"]]) > 1:
                plan[s["pos"]] = "ambiguous"
            elif pre is not None and pre is orig:
                plan[s["pos"]] = "reuse"
            elif pre is None:
                plan[s["pos"]] = "new"
            else:
                plan[s["pos"]] = "usurped"
            del orig, pre
    pre = self._pre_ids()
    try:
        if op.get("thread"):
            res = in_fresh_thread(lambda: deserialize(entry, h.obj, fmt, ser_opts(opts)))
            self.stats.probes["call_from_fresh_thread"] += 1
        else:
            res = deserialize(entry, h.obj, fmt, ser_opts(opts))
    except InjectedFault as e:
        self.stats.probes["fault_fired:" + e.site] += 1
        return "raised:InjectedFault"
    except Exception as e:  # noqa: BLE001
        if op.get("fault") and op["fault"]["site"] not in FAULTS.armed:
            # the injected hook failure surfaced wrapped (mashumaro InvalidFieldValue)
            self.stats.probes["fault_fired:" + op["fault"]["site"]] += 1
            return "raised:" + type(e).__name__
        if judge and any(v in ("usurped", "ambiguous") for v in plan.values()):
            # a position whose id was taken over by another live node is outside the guarantee; whatever the
            # usurper does to its ancestors (e.g. a type error under RUNTIME_TYPE_CHECK) is not judged
            self.stats.probes["deser_raised_with_usurped_id"] += 1
            return "raised:" + type(e).__name__
        if judge:
            raise self.viol("C04.0 deserialize-raised", f"C04.0:deser:{fmt}:{type(e).__name__}", f"{fmt} deserialization raised {type(e).__name__}: {e}", fmt=fmt) from None
        if self.cfg["digest"] < 8 or any(x["cls"] in UNSERIALIZABLE for x in _flatten(snapshot)):
            return "raised:" + type(e).__name__
        raise Cut(f"deserialize raised {type(e).__name__}: {e}") from None
    if judge:
        self._check_roundtrip(snapshot, res, plan, pre_objs, fmt, opts)
    self.put(op["out"], "node", res, op.get("actor", "a0"))
    del res
    self.discover()
    sib: dict[str, int] = {}
    for x in self.new_objs:
        sib[self.idkey(x)] = sib.get(self.idkey(x), 0) + 1
    if self.new_objs:
        self.stats.probes["deser_recreated"] += 1
    else:
        self.stats.probes["deser_reused_all"] += 1
    return "ok"


@_w2("_check_roundtrip")
def _check_roundtrip(self: World, snapshot: dict[str, Any], res: Any, plan: dict[int, str], pre_objs: set[int], fmt: str, opts: Any) -> None:
    seen_new: dict[int, Any] = {}  # same_as -> result object (sharing)
    tag = f"{fmt}{'+idx' if opts else ''}"

    def bad(oracle: str, sig: str, msg: str, **facts: Any) -> Violation:
        return self.viol(oracle, f"{sig}:{tag}", msg + f" [{tag}]", fmt=fmt, **facts)

    def own_fields(s: dict[str, Any], r: Any, how: str) -> None:
        if cname(r) != s["cls"]:
            raise bad("C04.2 roundtrip-class", "C04.2:class", f"position {s['pos']}: class {cname(r)} instead of {s['cls']}")
        if r.id != s["id"]:
            raise bad("C04.3 roundtrip-id", f"C04.3:id:{how}", f"position {s['pos']} ({s['cls']}): id {r.id} instead of serialized {s['id']}", how=how)
        for f in U.PROP_FIELDS[s["cls"]]:
            got = repr(U.canon(getattr(r, f.name)))
            if got != s["props"][f.name]:
                if not f.init and not f.compare:
                    raise self.viol(
                        "C04.4 roundtrip-property-value",
                        "C04.4:noninit-noncompare",
                        f"position {s['pos']} ({s['cls']}): non-init, non-comparable property {f.name} came back as {got}, was {s['props'][f.name]}",
                        field=f.name,
                    )
                raise bad(
                    "C04.4 roundtrip-property-value",
                    f"C04.4:{f.vt}:{'noncompare' if not f.compare else 'compare'}",
                    f"position {s['pos']} ({s['cls']}): property {f.name} came back as {got}, was {s['props'][f.name]}",
                    field=f.name,
                )
        if origin_key(r.origin) != s["okey"]:
            raise bad("C04.5 roundtrip-origin", f"C04.5:{s['okey'].split(':')[0]}", f"position {s['pos']}: origin {origin_key(r.origin)} instead of {s['okey']}")
        if s["no_origin_singleton"] and r.origin is not NO_ORIGIN:
            raise bad("C04.6 roundtrip-singleton", "C04.6:NoOrigin", "NoOrigin did not come back as the singleton")
        if isinstance(r.origin, NoOrigin) is False:
            src = r.origin.source
            if isinstance(src, NoSource) and src is not NoSource():
                raise bad("C04.6 roundtrip-singleton", "C04.6:NoSource", "NoSource did not come back as the singleton")
            if isinstance(r.origin.position, NoPosition) and r.origin.position is not NoPosition():
                raise bad("C04.6 roundtrip-singleton", "C04.6:NoPosition", "NoPosition did not come back as the singleton")

    def rec(s: dict[str, Any], r: Any) -> bool:
        """returns True when this position or something below it is exempt (taints the ancestors)."""
        p = plan[s["pos"]]
        if p in ("ambiguous", "usurped"):
            self.stats.probes["id_taken_over" if p == "usurped" else "ambiguous_id_in_tree"] += 1
            return True
        if p == "reuse":
            orig = s["ref"]()
            if r is not orig:
                raise bad("C04.1 registered-original-not-reused", "C04.1", f"position {s['pos']} ({s['cls']}): the original is still registered but a different object came back")
            self.stats.probes["deser_reused_live_node"] += 1
            return False
        # new
        if id(r) in pre_objs:
            raise bad("C04.7 recreated-node-is-preexisting-object", "C04.7", f"position {s['pos']}: original not registered and id free, but a pre-existing object came back")
        if s["same_as"] in seen_new:
            if seen_new[s["same_as"]] is not r:
                raise bad("C04.8 shared-node-duplicated", "C04.8", f"position {s['pos']}: a node that occurred at several positions came back as different objects")
            self.stats.probes["shared_subtree_roundtrip"] += 1
            return False
        seen_new[s["same_as"]] = r
        own_fields(s, r, "forced" if _SUFFIX.match(s["id"]) else "plain")
        if _SUFFIX.match(s["id"]):
            self.stats.probes["deser_forced_id"] += 1
        if ASTNode.get_any(r.id) is not r:
            raise bad("C04.9 recreated-node-not-registered", "C04.9", f"position {s['pos']} ({s['cls']}): re-created node is not registered under its id")
        got_children = children_of(r)
        if [(f, i) for f, i, _c in got_children] != [(f, i) for f, i, _c in s["children"]]:
            raise bad("C04.10 roundtrip-shape", "C04.10", f"position {s['pos']} ({s['cls']}): child positions differ")
        tainted = False
        for (f, i, cs), (_f2, _i2, cr) in zip(s["children"], got_children):
            if rec(cs, cr):
                tainted = True
        if not tainted and r.content_id != s["cid"]:
            raise bad("C04.11 roundtrip-content_id", "C04.11", f"position {s['pos']} ({s['cls']}): content_id {r.content_id} instead of {s['cid']}")
        return tainted

    tainted = rec(snapshot, res)
    orig_root = snapshot["ref"]()
    if not tainted and orig_root is not None and not (res == orig_root):
        raise bad("C04.12 result-not-equal-original", "C04.12", "round-trip result is not == to the (still alive) original")
    if not tainted:
        self.stats.probes["roundtrip_fully_judged"] += 1


@_w2("op_peer_roundtrip")
def op_peer_roundtrip(self: World, op: dict[str, Any]) -> str:
    """Restart: only the payload bytes survive; a fresh interpreter (other hash seed, pristine registry) reads it."""
    h = self.handles.get(op["p"])
    if h is None or h.kind != "payload" or self.peer is None:
        raise SkipOp("no payload / no peer")
    fmt, opts = h.meta["fmt"], h.meta["opts"]
    rep = self.peer.request(
        {"op": "roundtrip", "fmt": fmt, "opts": opts, "payload": payload_to_json(h.obj, fmt), "sources": h.meta["sources"], "digest": self.cfg["digest"], "rtc": self.cfg["rtc"]}
    )
    self.stats.probes["fresh_process_roundtrip"] += 1
    if "error" in rep:
        if self.on("C04"):
            raise self.viol("C04.0 deserialize-raised", f"C04.0:peer:{fmt}:{rep['error'].split(':')[0]}", f"fresh-process {fmt} deserialization raised {rep['error']}", fmt=fmt)
        raise Cut("peer deser raised " + rep["error"])
    if not self.on("C04") and not self.on("C01"):
        return "ok"
    want = snap_strip(h.meta["snap"])
    got = rep["snap"]
    tag = f"{fmt}{'+idx' if opts else ''}:fresh-process"
    fw, fg = _flatten(want), _flatten(got)
    ids: dict[str, set[int]] = {}
    for s in fw:
        ids.setdefault(s["id"], set()).add(s["same_as"])
    ambiguous = any(len(v) > 1 for v in ids.values())
    if ambiguous:
        self.stats.probes["ambiguous_id_in_tree"] += 1
        return "ok"
    if len(fw) != len(fg):
        raise self.viol("C04.10 roundtrip-shape", f"C04.10:{tag}", f"fresh process: {len(fg)} positions instead of {len(fw)} [{tag}]")
    for a, b in zip(fw, fg):
        for k in ("cls", "id", "props", "okey", "no_origin_singleton", "same_as"):
            if a[k] != b[k]:
                if self.on("C01"):
                    continue
                detail = k
                if k == "props":
                    bad = [n for n in a["props"] if a["props"][n] != b["props"].get(n)]
                    ft = {f.name: f for f in U.PROP_FIELDS[a["cls"]]}
                    detail = "props:" + ",".join(ft[n].vt for n in bad)
                    if all(not ft[n].init and not ft[n].compare for n in bad):
                        raise self.viol(
                            "C04.4 roundtrip-property-value",
                            "C04.4:noninit-noncompare",
                            f"fresh process: position {a['pos']} ({a['cls']}): non-init, non-comparable property {bad[0]} came back as {b['props'].get(bad[0])}, was {a['props'][bad[0]]}",
                            field=bad[0],
                        )
                raise self.viol(
                    "C04.13 fresh-process-roundtrip-differs",
                    f"C04.13:{detail}:{tag}",
                    f"fresh process: position {a['pos']} ({a['cls']}) differs in {k}: {b[k]!r} instead of {a[k]!r} [{tag}]",
                    fmt=fmt,
                )
        if a["cid"] != b["cid"]:
            p = "C01" if self.on("C01") else "C04"
            raise self.viol(
                f"{p}.5 content_id-differs-across-processes" if p == "C01" else "C04.11 roundtrip-content_id",
                f"{p}.xproc-cid:{a['cls']}",
                f"position {a['pos']} ({a['cls']}): content_id {b['cid']} in a fresh process (other hash seed, permuted field order) instead of {a['cid']}",
            )
    if not all(rep.get("registered", [])):
        raise self.viol("C04.9 recreated-node-not-registered", f"C04.9:{tag}", "fresh process: a re-created node is not registered under its id")
    return "ok"


@_w2("op_peer_cid")
def op_peer_cid(self: World, op: dict[str, Any]) -> str:
    """C01: the same spec built in another process (other hash seed, permuted field order)."""
    o = self.node_at(op["n"])
    if self.peer is None:
        raise SkipOp("no peer")
    spec = spec_of(o)
    rep = self.peer.request({"op": "build", "spec": spec, "digest": self.cfg["digest"]})
    if "error" in rep:
        raise Cut("peer build raised " + rep["error"])
    mine = [x.content_id for x in walk(o)]
    self.stats.probes["peer_cid_compared"] += 1
    if self.on("C01") and mine != rep["cids"]:
        k = next(i for i, (a, b) in enumerate(zip(mine, rep["cids"])) if a != b)
        cls = cname(walk(o)[k])
        raise self.viol(
            "C01.5 content_id-differs-across-processes",
            f"C01.xproc-cid:{cls}",
            f"a {cls} built from the same spec has content_id {mine[k]} here and {rep['cids'][k]} in a process with another hash seed / field order",
            spec=spec,
        )
    return "ok"


@_w2("op_peer_source_cycles")
def op_peer_source_cycles(self: World, op: dict[str, Any]) -> str:
    """C04, last clause: index-based documents of several producers (each with its own source table) are read by one
    consumer process that runs the documented cycle once per batch."""
    if self.peer is None:
        raise SkipOp("no peer")
    rep = self.peer.request({"op": "source_cycles", "batches": op["batches"], "digest": self.cfg["digest"], "sub_clear": bool(op.get("sub_clear"))})
    if "error" in rep:
        if rep["error"].startswith("peer-harness"):
            raise HarnessError(rep["error"])
        if self.on("C04"):
            raise self.viol("C04.0 deserialize-raised", f"C04.0:source-cycles:{rep['error'].split(':')[0]}", f"batch cycle (clear_registry, load_serialized_sources, read): {rep['error']}")
        raise Cut("peer source cycles raised " + rep["error"])
    self.stats.probes["source_table_cycles"] += 1
    for b, seen in zip(op["batches"], rep["seen"]):
        want = [[f"{k}{i}", U.SRC[k].source_uri] for i, k in enumerate(b["leaves"])]
        if self.on("C04") and seen != want:
            raise self.viol(
                "C04.9 index-based-sources",
                "C04.9:source-cycles",
                f"a document written with index-based sources {b['src']} came back, after its sources had been loaded into a cleared table, attached to {[x[1] for x in seen]} instead of {[x[1] for x in want]}",
            )
    return "ok"


@_w2("op_twin_classes")
def op_twin_classes(self: World, op: dict[str, Any]) -> str:
    """'Instances of the same class': a subclass that carries its base class' NAME is another class (C01)."""
    B, D = U.same_named_pair()
    b, d = B(v=op.get("v", "x")), D(v=op.get("v", "x"))
    bad = b.is_equal(d) or d.is_equal(b)
    b.detach()
    d.detach()
    del b, d
    self.stats.probes["same_named_subclass_probed"] += 1
    if bad and self.on("C01"):
        raise self.viol("C01.4 is_equal-disagrees-with-structure", "C01.4:same-named-subclass", "is_equal() is True between an instance of a class and an instance of its same-named subclass")
    return "ok"


@_w2("op_define_late")
def op_define_late(self: World, op: dict[str, Any]) -> str:
    """A node class comes into existence in the middle of the run (a plugin imported late), after lookups through its
    base classes have already been made."""
    if "Late" in U.CLS:
        raise SkipOp("defined")
    U.define_late()
    self.cfg["leaf_classes"] = list(self.cfg["leaf_classes"]) + ["Late", "Late"]
    self.stats.probes["class_defined_mid_run"] += 1
    return "ok"


@_w2("op_set_config")
def op_set_config(self: World, op: dict[str, Any]) -> str:
    """The user switches RUNTIME_TYPE_CHECK / TRACE_LOGGING in the middle of a run (the digest size stays: ids are
    judged against it): classes specialised under one setting are used under the other."""
    pcfg.RUNTIME_TYPE_CHECK = bool(op["rtc"])
    pcfg.TRACE_LOGGING = bool(op["trace"])
    self.stats.probes["config_switched_mid_run"] += 1
    return "ok"


@_w2("op_findall")
def op_findall(self: World, op: dict[str, Any]) -> str:
    o = self.node_at(op["n"])
    g = o.findall(op["xpath"])
    try:
        for _ in range(op.get("take", 1)):
            next(g)
    except StopIteration:
        self.stats.probes["findall_exhausted"] += 1
        return "ok"
    self.put(op["out"], "gen", g, op.get("actor", "a0"), {"root": o})
    self.stats.probes["findall_suspended"] += 1
    return "ok"


@_w2("op_walkgen")
def op_walkgen(self: World, op: dict[str, Any]) -> str:
    o = self.node_at(op["n"])
    how = op["how"]
    if how == "dfs":
        g = o.dfs(bottom_up=op.get("bottom_up", False))
    elif how == "bfs":
        g = o.bfs()
    elif how == "get_properties":
        g = iter(o.get_properties(sort_keys=op.get("bottom_up", False)))
    elif how == "get_child_nodes":
        g = iter(o.get_child_nodes(sort_keys=op.get("bottom_up", False)))
    elif how == "get_child_nodes_with_field":
        g = iter(o.get_child_nodes_with_field(sort_keys=op.get("bottom_up", False)))
    elif how == "iter_child_fields":
        g = iter(o.iter_child_fields())
    else:
        g = o.gather(U.CLS[op.get("cls", "LeafA")])
    try:
        for _ in range(op.get("take", 1)):
            next(g)
    except StopIteration:
        return "ok"
    self.put(op["out"], "gen", g, op.get("actor", "a0"), {"root": o})
    return "ok"


@_w2("op_gen_next")
def op_gen_next(self: World, op: dict[str, Any]) -> str:
    h = self.handles.get(op["h"])
    if h is None or h.kind != "gen":
        raise SkipOp("no gen")
    try:
        next(h.obj)
    except StopIteration:
        del self.handles[op["h"]]
    return "ok"


@_w2("op_tree")
def op_tree(self: World, op: dict[str, Any]) -> str:
    o = self.node_at(op["n"])
    t = o.to_tree()
    self.put(op["out"], "tree", t, op.get("actor", "a0"), {"root": o})
    return "ok"


@_w2("op_obs")
def op_obs(self: World, op: dict[str, Any]) -> str:
    """Read-only library operations: only the frame condition / registry invariants judge them."""
    a = self.node_at(op["n"])
    what = op["what"]
    try:
        if what == "eq":
            b = self.node_at(op["m"])
            _ = (a == b, a != b, hash(a), hash(b), a.is_equal(b), repr(a), str(b))
        elif what == "rich":
            from rich.console import Console
            import io

            Console(file=io.StringIO(), width=120).print(a)
        elif what == "walk":
            list(a.dfs())
            list(a.dfs(bottom_up=True, prune=lambda i: cname(i.node) == "Pair", filter=lambda i: i.findex != 1))
            list(a.bfs(filter=lambda i: cname(i.node) != "LeafB"))
            list(a.gather((U.CLS["LeafA"], U.CLS["Seq"]), exact_type=True))
            _ = a.children
        elif what == "tree":
            t = PTree(a)
            for x in walk(a)[:12]:
                t.get_xpath(x)
                t.get_parent_info(x)
                list(t.get_ancestors(x))
                t.get_depth(x)
                t.is_in_tree(x)
                t.get_first_ancestor_of_type(x, U.CLS["Expr"])
        elif what == "xpath":
            from pyoak.match.xpath import ASTXpath

            a.find(op.get("xpath", "//LeafA"))
            list(a.findall(op.get("xpath", "//LeafA")))
            xp = ASTXpath(op.get("xpath", "//LeafA"))
            for x in walk(a)[:8]:
                xp.match(a, x)
        elif what == "match":
            from pyoak.match.pattern import MultiPatternMatcher, NodeMatcher

            m, _msg = NodeMatcher.from_pattern(op.get("pattern", "(* @origin -> o)"))
            if m is not None:
                for x in walk(a)[:8]:
                    m.match(x)
            MultiPatternMatcher([("r1", "(LeafA @a -> v)"), ("r2", "(Seq @items=[* -> rest])")]).match(a)
        elif what == "accessors":
            for x in walk(a)[:8]:
                list(x.get_properties(skip_id=False, skip_origin=False, skip_content_id=False, sort_keys=True))
                list(x.get_child_nodes_with_field(sort_keys=True))
                list(x.iter_child_fields())
                x.to_properties_dict()
                type(x).get_child_fields()
                list(type(x).get_property_fields())
        elif what == "ser":
            for fmt in FORMATS:
                serialize(a, fmt, ser_opts(op.get("opts")))
        elif what == "origins":
            from pyoak.origin import concat_origins, merge_origins

            b = self.node_at(op["m"])
            _ = a.origin + b.origin
            _ = merge_origins(a.origin, b.origin, a.origin)
            _ = concat_origins(a.origin, b.origin)
            _ = b.origin + a.origin
            for x in walk(a)[:5]:
                _ = x.origin + a.origin
                _ = str(x.origin), x.origin.fqn, x.origin.get_raw()
        elif what == "churn":
            # allocator / cache pressure: a few hundred short-lived nodes with distinct property values
            tmp = [U.CLS["LeafA"](a=f"churn-{self.step_no}-{i}", b=str(i)) for i in range(op.get("count", 300))]
            for t in tmp:
                t.detach_self()
            del tmp
        elif what == "ser_opts":
            from pyoak.node import AST_SERIALIZE_DIALECT_KEY, ASTSerializationDialects
            from pyoak.serialize import SerializationOption

            so: dict[str, Any] = {}
            for k in op.get("optset", []):
                if k == "skip":
                    so[SerializationOption.SKIP_CLASS] = True
                elif k == "sort":
                    so[SerializationOption.SORT_KEYS] = True
                elif k == "test":
                    so[AST_SERIALIZE_DIALECT_KEY] = ASTSerializationDialects.AST_TEST
                elif k == "explorer":
                    so[AST_SERIALIZE_DIALECT_KEY] = ASTSerializationDialects.AST_EXPLORER
                elif k == "idx":
                    so[SOURCE_OPTIMIZED_SERIALIZATION_KEY] = True
            fmt = op.get("fmt", "dict")
            if fmt == "dict":
                a.as_dict(serialization_options=so)
            elif fmt == "json":
                a.to_json(serialization_options=so)
            elif fmt == "msgpack":
                a.to_msgpck(serialization_options=so)
            elif fmt in ("jsonb", "jsonb2"):
                a.to_jsonb(indent=fmt == "jsonb2", serialization_options=so)
            else:
                a.to_yaml(serialization_options=so)
            self.stats.probes["ser_with_option_subset"] += 1
        elif what == "visit":
            v = make_visitor(op.get("rules", {"LeafA": "keep"}), op.get("strict", False), self, transform=False, shape=op.get("vshape", "flat"))
            for x in walk(a)[:12]:
                v.visit(x)
        else:
            raise HarnessError(what)
    except SkipOp:
        raise
    except HarnessError:
        raise
    except Exception as e:  # noqa: BLE001
        if what in ("ser", "ser_opts") and unserializable(a):
            return "raised:unsupported-value"
        raise Cut(f"obs {what} raised {type(e).__name__}: {e}") from None
    return "ok"


@_w2("op_poke")
def op_poke(self: World, op: dict[str, Any]) -> str:
    o = self.node_at(op["n"])
    f = op["field"]
    if not hasattr(o, f):
        raise SkipOp("no such field")
    try:
        if op["how"] == "set":
            setattr(o, f, op.get("value", "poked"))
        else:
            delattr(o, f)
    except Exception as e:  # noqa: BLE001
        return "raised:" + type(e).__name__
    if self.on("C10"):
        raise self.viol(
            "C10.2 field-assignment-did-not-raise",
            f"C10.2:{op['how']}:{'slotted' if not hasattr(o, '__dict__') else 'dict'}",
            f"{op['how']} of field {f} on a {cname(o)} did not raise",
            field=f,
        )
    return "ok"


# ---- transform (C09) --------------------------------------------------------------------------


def expect_transform(o: Any, rules: dict[str, Any], strict: bool, world: World, calls: list[tuple[str, str]]) -> Any:
    """Reference rewriting (Appendix A.4) on the real input objects; returns an expectation tree."""
    cls = cname(o)
    meth, rule = rule_for(cls, rules, strict)
    if meth is None:
        return _expect_generic(o, rules, strict, world, calls)
    calls.append((meth, cls))
    base = _expect_generic(o, rules, strict, world, calls)
    kind = rule if isinstance(rule, str) else rule[0]
    if kind in ("keep", "busy"):
        return base
    if kind == "remove":
        return "removed"
    if kind == "raise":
        raise _UserError(meth)  # (whatever the class: the reference only says "this transform raises")
    if kind in ("rewrite", "rewrite_tc"):
        if "same" in base:
            src = base["same"]
            b = {"new": {"cls": cls, "from": src, "props": {}, "children": None}}
        else:
            b = {"new": dict(base["new"])}
            b["new"]["props"] = dict(base["new"]["props"])
        b["new"]["props"][rule[1]] = repr(U.canon(U.decode(next(x for x in U.PROP_FIELDS[meth] if x.name == rule[1]).vt, rule[2])))
        return b
    if kind == "fresh":
        return {"fresh": rule[1]}
    if kind == "existing":
        return {"same": world.node_at(rule[1])}
    raise HarnessError(str(rule))


def _expect_generic(o: Any, rules: dict[str, Any], strict: bool, world: World, calls: list[tuple[str, str]]) -> Any:
    changed = False
    ch: dict[str, Any] = {}
    for f in U.CHILD_FIELDS[cname(o)]:
        v = getattr(o, f.name)
        if f.kind in ("tuple", "fixed"):
            lst = []
            for c in v:
                e = expect_transform(c, rules, strict, world, calls)
                if e == "removed":
                    changed = True
                    continue
                lst.append(e)
                if not ("same" in e and e["same"] is c):
                    changed = True
            ch[f.name] = lst
        elif v is None:
            ch[f.name] = None
        else:
            e = expect_transform(v, rules, strict, world, calls)
            if e == "removed":
                ch[f.name] = None
                changed = True
            else:
                ch[f.name] = e
                if not ("same" in e and e["same"] is v):
                    changed = True
    if not changed:
        return {"same": o}
    return {"new": {"cls": cname(o), "from": o, "props": {}, "children": ch}}


@_w2("_match_expect")
def _match_expect(self: World, e: Any, r: Any, pre_objs: set[int], path: str) -> None:
    def bad(oracle: str, sig: str, msg: str) -> Violation:
        return self.viol(oracle, sig, f"{msg} (at {path or 'root'})")

    if "same" in e:
        if r is not e["same"]:
            kind = "unchanged-subtree" if id(e["same"]) in pre_objs else "replacement"
            raise bad("C09.2 identity-not-preserved", f"C09.2:{kind}", f"expected the very same {cname(e['same'])} object, got {'another ' + cname(r) if r is not None else 'None'}")
        return
    if r is None:
        raise bad("C09.3 node-missing", "C09.3", "expected a node, got None")
    if "fresh" in e:
        if id(r) in pre_objs:
            raise bad("C09.4 fresh-replacement-is-preexisting", "C09.4", "replacement node is a pre-existing object")
        return
    n = e["new"]
    if id(r) in pre_objs:
        raise bad("C09.5 ancestor-of-change-not-new", "C09.5", f"a {n['cls']} above a change must be a new node but a pre-existing object was returned")
    if cname(r) != n["cls"]:
        raise bad("C09.6 class", "C09.6", f"expected class {n['cls']}, got {cname(r)}")
    src = n["from"]
    for f in U.PROP_FIELDS[n["cls"]]:
        if f.name in n["props"]:
            if repr(U.canon(getattr(r, f.name))) != n["props"][f.name]:
                raise bad("C09.7 rewritten-property", "C09.7", f"property {f.name} is {getattr(r, f.name)!r}")
        elif f.init and getattr(r, f.name) is not getattr(src, f.name) and repr(U.canon(getattr(r, f.name))) != repr(U.canon(getattr(src, f.name))):
            raise bad("C09.8 untouched-property-changed", "C09.8", f"property {f.name} differs from the input node's")
    if origin_key(r.origin) != origin_key(src.origin):
        raise bad("C09.8 untouched-property-changed", "C09.8:origin", "origin differs from the input node's")
    chs = n["children"]
    for f in U.CHILD_FIELDS[n["cls"]]:
        got = getattr(r, f.name)
        if chs is None:
            # rewrite of an otherwise unchanged node: children are the input's very objects
            want = getattr(src, f.name)
            if f.kind in ("tuple", "fixed"):
                if len(got) != len(want) or any(x is not y for x, y in zip(got, want)):
                    raise bad("C09.2 identity-not-preserved", "C09.2:unchanged-subtree", f"children in {f.name} are not the input's objects")
            elif got is not want:
                raise bad("C09.2 identity-not-preserved", "C09.2:unchanged-subtree", f"child {f.name} is not the input's object")
            continue
        want = chs[f.name]
        if f.kind in ("tuple", "fixed"):
            if not isinstance(got, tuple) or len(got) != len(want):
                raise bad(
                    "C09.9 tuple-children",
                    "C09.9:length",
                    f"field {f.name}: expected {len(want)} elements after rewriting, got {len(got) if isinstance(got, tuple) else type(got).__name__}",
                )
            for i, (we, g) in enumerate(zip(want, got)):
                self._match_expect(we, g, pre_objs, f"{path}/{f.name}[{i}]")
        elif want is None:
            if got is not None:
                raise bad("C09.10 removed-single-child", "C09.10", f"field {f.name} should be None after removal")
        else:
            self._match_expect(want, got, pre_objs, f"{path}/{f.name}")


@_w2("op_transform")
def op_transform(self: World, op: dict[str, Any]) -> str:
    o = self.node_at(op["n"])
    rules, strict = op["rules"], op.get("strict", False)
    judge = self.on("C09")
    for r in rules.values():
        if isinstance(r, list) and r[0] == "existing":
            self.node_at(r[1])
    calls: list[tuple[str, str]] = []
    exp: Any = None
    exp_raises = False
    try:
        exp = expect_transform(o, rules, strict, self, calls)
    except _UserError:
        exp_raises = True
    pre_objs = {id(x) for x in self.last_reach} | {id(v) for v in list(NODE_REGISTRY.values())}
    v = make_visitor(rules, strict, self, shape=op.get("vshape", "flat"))
    if op.get("burst"):
        # the same visitor OBJECT has been through many transforms in which a rule raised (state left behind by failed
        # calls must not accumulate)
        bo = self.node_at(op["burst"]["on"])
        for _ in range(op["burst"]["n"]):
            try:
                v.transform(bo)
            except Exception:  # noqa: BLE001
                pass
        v.log = []
        self.stats.probes["transform_after_burst_of_failures"] += 1
    FAULTS.reset_hits()
    outcome = "ok"
    res = None
    raise_types = tuple({_EXC.get(r[1], _UserError) for r in rules.values() if isinstance(r, list) and r[0] == "raise"} | {_UserError})
    try:
        res = v.transform(o)
    except raise_types as e:
        if type(e).__name__ == "InvalidTypes":
            raise
        outcome = "raised:UserError"
    except InjectedFault as e:
        self.stats.probes["fault_fired:" + e.site] += 1
        outcome = "raised:InjectedFault"
    except Exception as e:  # noqa: BLE001
        if self.cfg["rtc"] and type(e).__name__ == "InvalidTypes":
            outcome = "raised:InvalidTypes"
        elif isinstance(e, RuntimeError) and isinstance(e.__cause__ or e.__context__, StopIteration) and StopIteration in raise_types:
            outcome = "raised:UserError"  # PEP 479: a StopIteration crossing a generator frame surfaces as RuntimeError
        elif judge:
            raise self.viol("C09.0 transform-raised", f"C09.0:{type(e).__name__}", f"transform raised {type(e).__name__}: {e}") from None
        else:
            raise Cut(f"transform raised {type(e).__name__}: {e}") from None
    m = FAULTS.hits.get("visit", 0)
    if judge and not op.get("fault"):
        if exp_raises != (outcome == "raised:UserError"):
            raise self.viol("C09.1 raise-rule", "C09.1", f"visitor rule 'raise' expected={exp_raises}, outcome {outcome}")
        if outcome == "ok":
            if v.log != calls:
                k = next((i for i, (a, b) in enumerate(zip(v.log, calls)) if a != b), min(len(v.log), len(calls)))
                raise self.viol(
                    "C09.11 dispatch",
                    f"C09.11:{'strict' if strict else 'mro'}",
                    f"visit method dispatch differs from the {'strict' if strict else 'MRO'} rule at call {k}: got {v.log[k] if k < len(v.log) else None}, expected {calls[k] if k < len(calls) else None}",
                    strict=strict,
                )
            if exp == "removed":
                if res is not None:
                    raise self.viol("C09.3 root-removed", "C09.3:root", "root mapped to None but transform returned a node")
            else:
                self._match_expect(exp, res, pre_objs, "")
            if exp != "removed" and "same" in exp and exp["same"] is o:
                self.stats.probes["transform_unchanged_tree"] += 1
            else:
                self.stats.probes["transform_changed_tree"] += 1
    if res is not None and outcome == "ok":
        self.put(op["out"], "node", res, op.get("actor", "a0"))
    del res, v
    if outcome.startswith("raised"):
        self.stats.probes["transform_raised_midway"] += 1
    # fault enumeration: the same transform with the k-th visitor call raising, for every k
    if op.get("enum") and m and not op.get("fault"):
        ks = list(range(1, m + 1))
        if len(ks) > 24:
            ks = ks[:: max(1, len(ks) // 24)][:24]
        for k in ks:
            collect()
            self.discover()
            before_reg = {kk: id(vv) for kk, vv in list(NODE_REGISTRY.items())}
            sink0 = len(U.M.HOOK_SINK)
            v2 = make_visitor(rules, strict, self, shape=op.get("vshape", "flat"))
            FAULTS.disarm()
            FAULTS.reset_hits()
            FAULTS.arm("visit", k)
            try:
                v2.transform(o)
                raised = False
            except InjectedFault:
                raised = True
            except raise_types:
                raised = True
            except Exception as e:  # noqa: BLE001
                if self.cfg["rtc"] and type(e).__name__ == "InvalidTypes":
                    raised = True
                elif judge:
                    raise self.viol("C09.0 transform-raised", f"C09.0:faulted:{type(e).__name__}", f"transform with visitor call {k} raising surfaced {type(e).__name__}: {e}") from None
                else:
                    raise Cut(f"faulted transform raised {type(e).__name__}") from None
            finally:
                FAULTS.disarm()
            del v2
            del U.M.HOOK_SINK[sink0:]  # nodes made by user callbacks during the failed attempt: the user lets go of them
            self.stats.probes["transform_fault_enumerated"] += 1
            if not raised and judge:
                raise self.viol("C09.12 fault-swallowed", "C09.12", f"visitor call {k} raised but transform returned normally")
            collect()
            self.discover()
            if self.on("C09") or self.on("C10"):
                self.check_frame_for(op, f"transform with visitor call {k}/{m} raising")
            if self.on("C03"):
                now = {kk: id(vv) for kk, vv in list(NODE_REGISTRY.items())}
                if now != before_reg:
                    raise self.viol("C03.10 failed-transform-changed-registry", "C03.10", f"a transform that raised at visitor call {k} left the registry changed")
    return outcome


@_w2("check_frame_for")
def check_frame_for(self: World, op: dict[str, Any], what: str) -> None:
    for o in self.last_reach:
        i = self.inf(o)
        s = snap(o)
        if s != i.snap:
            changed = [a[0] for a, b in zip(s, i.snap) if a != b]
            p = "C09" if self.on("C09") else "C10"
            raise self.viol(
                f"{p}.13 input-modified" if p == "C09" else "C10.1 existing-node-modified",
                f"{p}.frame:{op['op']}:{','.join(changed)}",
                f"{what} changed field(s) {changed} of pre-existing node {i.name} ({i.cls})",
            )
