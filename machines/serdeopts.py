"""C16: serialization options apply to the whole call and to nothing after it.

A persister issues sequences of as_dict / as_obj / to_* / from_* calls with every subset of the options; every call is
followed by the same call with a fault injected at every enumerable position (k-th property hook raising, malformed
input at the k-th nested object).  After every call -- returned or raised -- a probe set is serialized with no
options and must equal the golden default output; every returned document is judged by structural predicates at
every depth (spec-guided walker over the real object graph).
"""
from __future__ import annotations

import copy
from pathlib import Path
from typing import Any

import msgpack
import orjson
import yaml
from mashumaro.dialect import Dialect

from simkit.core import FAULTS, HarnessError, InjectedFault, RunStats, SkipOp, Violation, fp
from simkit.rng import Rng

import pyoak.config as pcfg
from machines import regworld as RW
from pyoak.node import AST_SERIALIZE_DIALECT_KEY, NODE_REGISTRY, ASTNode, ASTSerializationDialects
from pyoak.origin import (
    SOURCE_OPTIMIZED_SERIALIZATION_KEY,
    CodePoint,
    CodeRange,
    MultiOrigin,
    NoOrigin,
    NoPosition,
    NoSource,
    Origin,
    Position,
    PositionSet,
    Source,
    SourceSet,
)
from pyoak.serialize import TYPE_KEY, SerializationOption
from universe import v2 as U

NAME = "serdeopts"
PROPS = ("C16",)
NEEDS_PEER = ()

OPTS = ("skip", "sort", "explorer", "test", "idx", "dialect", "odialect")
SER = ("as_dict", "to_json", "to_msgpck", "to_yaml", "to_jsonb")
DESER = ("as_obj", "from_json", "from_msgpck", "from_yaml")
PAIR = {"as_dict": "as_obj", "to_json": "from_json", "to_msgpck": "from_msgpck", "to_yaml": "from_yaml", "to_jsonb": "from_json"}


class PDialect(Dialect):
    serialization_strategy = {  # noqa: RUF012
        Path: {"serialize": lambda p: "P:" + p.as_posix(), "deserialize": lambda s: Path(s[2:] if s.startswith("P:") else s)},
    }


# option mappings kept by the caller and passed again and again (a module constant in user code); None: a fresh
# mapping for every call
SHARED: dict[tuple[str, ...], dict[str, Any]] | None = None
FALSY_KEYS = False  # per run: write unrequested options into the mapping with a false value


class ODialect(Dialect):
    """a dialect that changes the KEY SET of every mapping: None-valued fields are left out"""

    omit_none = True


def _dia(opts: list[str]) -> Any:
    return PDialect if "dialect" in opts else ODialect if "odialect" in opts else None


def mk_options(opts: list[str]) -> tuple[dict[str, Any] | None, Any]:
    key = tuple(sorted(o for o in opts if o not in ("dialect", "odialect")))
    if SHARED is not None and key in SHARED:
        return SHARED[key], _dia(opts)
    d: dict[str, Any] = {}
    if "skip" in opts:
        d[SerializationOption.SKIP_CLASS] = True
    if "sort" in opts:
        d[SerializationOption.SORT_KEYS] = True
    if "explorer" in opts:
        d[AST_SERIALIZE_DIALECT_KEY] = ASTSerializationDialects.AST_EXPLORER
    if "test" in opts:
        d[AST_SERIALIZE_DIALECT_KEY] = ASTSerializationDialects.AST_TEST
    if "idx" in opts:
        d[SOURCE_OPTIMIZED_SERIALIZATION_KEY] = True
    if FALSY_KEYS:
        # computed flags: options that are NOT requested are present with a false value
        if "skip" not in opts:
            d[SerializationOption.SKIP_CLASS] = False
        if "sort" not in opts:
            d[SerializationOption.SORT_KEYS] = False
        if "idx" not in opts:
            d[SOURCE_OPTIMIZED_SERIALIZATION_KEY] = False
    if SHARED is not None and d:
        SHARED[key] = d
    return (d or None), _dia(opts)


def has_big_int(o: Any) -> bool:
    if not isinstance(o, ASTNode):
        return False
    for x in RW.walk(o):
        for f in U.PROP_FIELDS[RW.cname(x)]:
            v = getattr(x, f.name)
            if isinstance(v, int) and not isinstance(v, bool) and not -(2**63) <= v < 2**64:
                return True
    return False


def call_ser(o: Any, m: str, opts: list[str]) -> Any:
    so, dia = mk_options(opts)
    if m == "as_dict":
        return o.as_dict(mashumaro_dialect=dia, serialization_options=so)
    if m == "to_json":
        return o.to_json(serialization_options=so)
    if m == "to_jsonb":
        return o.to_jsonb(indent=bool(so and len(so) % 2), serialization_options=so)
    if m == "to_msgpck":
        return o.to_msgpck(serialization_options=so)
    if m == "to_yaml":
        return o.to_yaml(mashumaro_dialect=dia, serialization_options=so)
    raise HarnessError(m)


def call_deser(cls: Any, data: Any, m: str, opts: list[str]) -> Any:
    so, dia = mk_options(opts)
    if m == "as_obj":
        return cls.as_obj(data, mashumaro_dialect=dia, serialization_options=so)
    if m == "from_json":
        return cls.from_json(data, serialization_options=so)
    if m == "from_msgpck":
        return cls.from_msgpck(data, serialization_options=so)
    if m == "from_yaml":
        return cls.from_yaml(data, mashumaro_dialect=dia, serialization_options=so)
    raise HarnessError(m)


def to_doc(data: Any, m: str) -> Any:
    if m in ("as_dict", "as_obj"):
        return data
    if m in ("to_json", "from_json", "to_jsonb"):
        return orjson.loads(data)
    if m in ("to_msgpck", "from_msgpck"):
        return msgpack.unpackb(data, raw=False)
    return yaml.load(data, Loader=getattr(yaml, "CSafeLoader", yaml.SafeLoader))


def from_doc(doc: Any, m: str) -> Any:
    if m in ("as_dict", "as_obj"):
        return doc
    if m in ("to_json", "from_json", "to_jsonb"):
        return orjson.dumps(doc)
    if m in ("to_msgpck", "from_msgpck"):
        return msgpack.packb(doc, use_bin_type=True)
    return yaml.dump(doc, Dumper=getattr(yaml, "CDumper", yaml.Dumper))


# ---- the spec-guided judge of a returned document (predicate (b)) ---------------------------------


class Judge:
    def __init__(self, w: "World", opts: list[str], ordered: bool, dialect_applies: bool):
        self.w = w
        self.skip = "skip" in opts
        self.sort = "sort" in opts
        self.explorer = "explorer" in opts
        self.test = "test" in opts and "explorer" not in opts or ("test" in opts)
        self.idx = "idx" in opts
        self.dialect = "dialect" in opts and dialect_applies
        self.ordered = ordered
        self.opts = opts
        self.count = 0

    def bad(self, oracle: str, sig: str, msg: str, path: str) -> Violation:
        return self.w.viol(oracle, f"{sig}:{'+'.join(sorted(self.opts)) or 'default'}", f"{msg} (at {path or 'root'}, options {sorted(self.opts) or 'none'})")

    def common(self, d: Any, cls: str, path: str, what: str) -> None:
        self.count += 1
        if not isinstance(d, dict):
            raise self.bad("C16.5 document-shape", f"C16.5:{what}", f"{what} is not a mapping", path)
        keys = list(d.keys())
        if self.skip:
            if TYPE_KEY in d:
                raise self.bad("C16.2 type-tag-under-suppression", f"C16.2:{what}", f"{what} mapping carries a type tag although tags are suppressed", path)
        elif d.get(TYPE_KEY) != cls:
            raise self.bad("C16.3 type-tag-missing-or-wrong", f"C16.3:{what}", f"{what} mapping has type tag {d.get(TYPE_KEY)!r}, expected {cls!r}", path)
        if self.sort and self.ordered:
            rest = [k for k in keys if k != TYPE_KEY]
            if (TYPE_KEY in keys and keys[0] != TYPE_KEY) or rest != sorted(rest):
                culprit = "type-tag-not-first" if (TYPE_KEY in keys and keys[0] != TYPE_KEY) else next((a for a, b in zip(rest, sorted(rest)) if a != b), "?")
                culprit = culprit if culprit in ("type-tag-not-first", "_children") else ("source_keys" if what == "injected-source" else "field")
                raise self.bad("C16.4 keys-not-sorted", f"C16.4:{what}:{culprit}", f"{what} mapping keys {keys} are not (type tag first, rest sorted)", path)

    def node(self, o: Any, d: Any, path: str) -> None:
        cls = RW.cname(o)
        self.common(d, cls, path, "node")
        if self.explorer:
            want = [f.name for f in U.CHILD_FIELDS[cls]]
            if sorted(d.get("_children", ["<missing>"])) != sorted(want):
                raise self.bad("C16.6 explorer-children", "C16.6", f"_children is {d.get('_children')}, child fields are {want}", path)
        elif "_children" in d:
            raise self.bad("C16.7 option-effect-without-option", "C16.7:_children", "node mapping lists _children although the explorer dialect was not requested", path)
        od = d.get("origin")
        if "test" in self.opts and not self.explorer:
            src = od.get("source") if isinstance(od, dict) else None
            if not isinstance(src, dict) or src.get("source_uri") != "":
                raise self.bad("C16.8 test-dialect-not-applied", "C16.8", "AST_TEST dialect requested but this node's origin keeps its real source", path)
            self.injected_source(src, path + "/origin/source")
            self.origin(o.origin, od, path + "/origin", skip_source=True)
        else:
            self.origin(o.origin, od, path + "/origin")
        for f in U.PROP_FIELDS[cls]:
            if f.vt in ("optpath", "tpath") and f.name in d and d[f.name] is not None:
                # Path values wrapped in Optional / tuple: the dialect's strategy reaches them too
                for v in d[f.name] if isinstance(d[f.name], list) else [d[f.name]]:
                    if self.dialect != (isinstance(v, str) and v.startswith("P:")):
                        raise self.bad("C16.9 dialect-effect", f"C16.9:wrapped:{'missing' if self.dialect else 'leaked'}", f"wrapped Path value rendered as {v!r} with dialect={'on' if self.dialect else 'off'}", path)
            if f.vt == "path" and f.name in d:
                v = d[f.name]
                if self.dialect != (isinstance(v, str) and v.startswith("P:")):
                    raise self.bad("C16.9 dialect-effect", f"C16.9:{'missing' if self.dialect else 'leaked'}", f"Path property rendered as {v!r} with dialect={'on' if self.dialect else 'off'}", path)
        for f in U.CHILD_FIELDS[cls]:
            v = getattr(o, f.name)
            dv = d.get(f.name)
            if f.kind in ("tuple", "fixed"):
                if not isinstance(dv, list) or len(dv) != len(v):
                    raise self.bad("C16.5 document-shape", "C16.5:children", f"field {f.name} serialized as {type(dv).__name__}", path)
                for i, (c, dc) in enumerate(zip(v, dv)):
                    self.node(c, dc, f"{path}/{f.name}[{i}]")
            elif v is not None:
                self.node(v, dv, f"{path}/{f.name}")

    def injected_source(self, d: dict[str, Any], path: str) -> None:
        self.count += 1
        keys = list(d.keys())
        if self.skip and TYPE_KEY in d:
            raise self.bad("C16.2 type-tag-under-suppression", "C16.2:injected-source", "the source mapping injected by the AST_TEST dialect carries a type tag although tags are suppressed", path)
        if not self.skip and d.get(TYPE_KEY) != "Source":
            raise self.bad("C16.3 type-tag-missing-or-wrong", "C16.3:injected-source", f"injected source mapping has tag {d.get(TYPE_KEY)!r}", path)
        if self.sort and self.ordered:
            rest = [k for k in keys if k != TYPE_KEY]
            if (TYPE_KEY in keys and keys[0] != TYPE_KEY) or rest != sorted(rest):
                raise self.bad("C16.4 keys-not-sorted", "C16.4:injected-source:source_keys", f"injected source mapping keys {keys} are not (type tag first, rest sorted)", path)

    def origin(self, o: Any, d: Any, path: str, skip_source: bool = False) -> None:
        if isinstance(o, NoOrigin):
            if not isinstance(d, dict) or any(k not in ("source",) for k in d):
                raise self.bad("C16.5 document-shape", "C16.5:NoOrigin", f"NoOrigin serialized as {d!r}", path)
            return
        self.common(d, type(o).__name__, path, "origin")
        if not skip_source:
            self.source(o.source, d.get("source"), path + "/source")
        self.position(o.position, d.get("position"), path + "/position")
        if isinstance(o, MultiOrigin):
            ds = d.get("origins")
            if not isinstance(ds, list) or len(ds) != len(o.origins):
                raise self.bad("C16.5 document-shape", "C16.5:origins", "origins list", path)
            for i, (x, dx) in enumerate(zip(o.origins, ds)):
                self.origin(x, dx, f"{path}/origins[{i}]")

    def source(self, s: Any, d: Any, path: str) -> None:
        if isinstance(s, NoSource):
            if d != {}:
                raise self.bad("C16.5 document-shape", "C16.5:NoSource", f"NoSource serialized as {d!r}", path)
            return
        if self.idx:
            self.count += 1
            if d != {"idx": s.source_registry_id}:
                raise self.bad("C16.10 index-based-source", "C16.10:missing", f"source serialized as {d!r}, expected an index reference {{'idx': {s.source_registry_id}}}", path)
            return
        if isinstance(d, dict) and set(d) == {"idx"}:
            raise self.bad("C16.7 option-effect-without-option", "C16.7:idx", "source serialized as an index reference although index-based sources were not requested", path)
        self.common(d, type(s).__name__, path, "source")
        for attr in ("relative_path", "in_zip_path"):
            # Path fields of file-backed sources are nested values of the call like any other: the call's mashumaro
            # dialect (here: a Path strategy) applies to them
            if hasattr(s, attr):
                v = d.get(attr)
                self.w.stats.probes["source_path_field_judged"] += 1
                if self.dialect != (isinstance(v, str) and v.startswith("P:")):
                    raise self.bad("C16.9 dialect-effect", f"C16.9:source-path:{'missing' if self.dialect else 'leaked'}", f"{type(s).__name__}.{attr} rendered as {v!r} with dialect={'on' if self.dialect else 'off'}", path)
        if isinstance(s, SourceSet):
            ds = d.get("sources")
            if not isinstance(ds, list) or len(ds) != len(s.sources):
                raise self.bad("C16.5 document-shape", "C16.5:sources", "sources list", path)
            for i, (x, dx) in enumerate(zip(s.sources, ds)):
                self.source(x, dx, f"{path}/sources[{i}]")

    def position(self, p: Any, d: Any, path: str) -> None:
        if isinstance(p, NoPosition):
            if d != {}:
                raise self.bad("C16.5 document-shape", "C16.5:NoPosition", f"NoPosition serialized as {d!r}", path)
            return
        self.common(d, type(p).__name__, path, "position")
        if isinstance(p, CodeRange):
            self.common(d.get("start"), "CodePoint", path + "/start", "codepoint")
            self.common(d.get("end"), "CodePoint", path + "/end", "codepoint")
        elif isinstance(p, PositionSet):
            ds = d.get("positions")
            if not isinstance(ds, list) or len(ds) != len(p.positions):
                raise self.bad("C16.5 document-shape", "C16.5:positions", "positions list", path)
            for i, (x, dx) in enumerate(zip(p.positions, ds)):
                self.position(x, dx, f"{path}/positions[{i}]")

    def any(self, o: Any, d: Any) -> None:
        if isinstance(o, ASTNode):
            self.node(o, d, "")
        elif isinstance(o, Origin):
            self.origin(o, d, "")
        elif isinstance(o, Source):
            self.source(o, d, "")
        elif isinstance(o, Position):
            self.position(o, d, "")
        elif isinstance(o, CodePoint):
            self.common(d, "CodePoint", "", "codepoint")


# ---- bad input ------------------------------------------------------------------------------------


def node_maps(doc: Any, out: list[dict[str, Any]]) -> list[dict[str, Any]]:
    """All nested mappings that represent nodes (have an id), pre-order."""
    if isinstance(doc, dict):
        if "id" in doc and "content_id" in doc:
            out.append(doc)
        for v in doc.values():
            node_maps(v, out)
    elif isinstance(doc, list):
        for v in doc:
            node_maps(v, out)
    return out


MUTS = ("del_id", "unknown_type", "bad_idx", "del_prop", "wrong_child", "root_not_mapping")


def mutate_doc(doc: Any, k: int, mut: str) -> Any:
    if mut == "root_not_mapping":
        # malformed at depth 0: the document itself is not a mapping
        return [[1, 2], "text", 5][k % 3]
    d = copy.deepcopy(doc)
    maps = node_maps(d, [])
    if k >= len(maps):
        raise SkipOp("no such nested object")
    m = maps[k]
    if mut == "del_id":
        del m["id"]
    elif mut == "unknown_type":
        m[TYPE_KEY] = "NoSuchClass"
    elif mut == "bad_idx":
        m["origin"] = {TYPE_KEY: "CodeOrigin", "source": {"idx": 9999}, "position": {}}
    elif mut == "del_prop":
        for key in list(m):
            if key not in ("id", "content_id", "origin", TYPE_KEY) and not isinstance(m[key], (dict, list)):
                del m[key]
                break
        else:
            m.pop("content_id", None)
    elif mut == "wrong_child":
        for key in list(m):
            if isinstance(m[key], list) or (isinstance(m[key], dict) and key not in ("origin", "tok")):
                m[key] = 5
                break
        else:
            m["origin"] = 5
    return d


# ---- world ------------------------------------------------------------------------------------------

PROBE_SPEC = {
    "c": "Mixed",
    "p": {"text": "probe"},
    "o": "m:ab",
    "ch": {
        "items": [
            {"c": "Vals", "p": {"s": "v", "p": "a/b"}, "ch": {}, "o": "c:c:2-4"},
            {"c": "Upper", "p": {"Name": "N", "ID": 3}, "ch": {}, "o": "x:b:/r"},
            {"c": "Carrier", "p": {"tok": "t"}, "ch": {}, "o": "g:a"},
        ],
        "one": {"c": "Pair", "p": {}, "ch": {"left": {"c": "LeafA", "p": {"a": "probe-leaf"}, "ch": {}, "o": "no"}}, "o": "c:a:0-5"},
        "head": None,
    },
}


class World:
    def __init__(self, cfg: dict[str, Any], prop: str):
        self.cfg = cfg
        self.prop = prop
        self.stats = RunStats()
        self.trace: list[dict[str, Any]] = []
        self.step_no = 0
        self.handles: dict[str, Any] = {}
        self.kinds: dict[str, str] = {}
        self.meta: dict[str, dict[str, Any]] = {}
        pcfg.ID_DIGEST_SIZE = cfg.get("digest", 8)
        pcfg.RUNTIME_TYPE_CHECK = False
        FAULTS.disarm()
        global SHARED, FALSY_KEYS
        SHARED = {} if cfg.get("shared_opts") else None
        FALSY_KEYS = bool(cfg.get("falsy_keys"))
        if len(NODE_REGISTRY) != 0:
            raise HarnessError("registry not pristine")
        self.builder = RW.World({"digest": cfg.get("digest", 8), "rtc": False, "gc": "exact"}, "none")
        self.probe = self.builder.build(PROBE_SPEC)
        self.probe_origin = U.ORIGINS["m:ab"]
        self.probe_source = U.SRC["a"]
        self.golden = (self.probe.as_dict(), self.probe_origin.as_dict(), self.probe_source.as_dict())
        self.golden_frozen = copy.deepcopy(self.golden)
        self.last_hits: dict[str, int] = {}

    def viol(self, oracle: str, sig: str, message: str, **facts: Any) -> Violation:
        return Violation(self.prop, oracle, sig, message, {"step": self.step_no, **facts})

    # (a) nothing afterwards
    def check_probe(self, after: str, outcome: str, opts: list[str]) -> None:
        self.stats.checks += 1
        label = "+".join(sorted(opts)) or "default"
        how = "raised" if outcome.startswith("raised") else "returned"
        try:
            now = (self.probe.as_dict(), self.probe_origin.as_dict(), self.probe_source.as_dict())
        except Exception as e:  # noqa: BLE001
            raise self.viol(
                "C16.1 later-default-call-affected",
                f"C16.1:{after.split('_')[0]}:{how}:exc",
                f"a default as_dict() after a {after} call with options [{label}] that {how} raised {type(e).__name__}: {e}",
            ) from None
        for name, a, b in zip(("node tree", "origin", "source"), now, self.golden_frozen):
            if a != b or (name == "node tree" and not self.same_order(a, b)):
                diff = self.first_diff(a, b)
                raise self.viol(
                    "C16.1 later-default-call-affected",
                    f"C16.1:{'ser' if after in SER else 'deser'}:{how}",
                    f"default serialization of the probe {name} after a {after} call with options [{label}] that {how} differs from the golden default output: {diff}",
                    after=after,
                    options=sorted(opts),
                    how=how,
                )
        try:
            back = ASTNode.as_obj(copy.deepcopy(self.golden_frozen[0]))
        except Exception as e:  # noqa: BLE001
            raise self.viol(
                "C16.1 later-default-call-affected",
                f"C16.1:{'ser' if after in SER else 'deser'}:{how}:as_obj",
                f"default as_obj(golden) after a {after} call with options [{label}] that {how} raised {type(e).__name__}: {e}",
            ) from None
        if back is not self.probe:
            raise self.viol("C16.1 later-default-call-affected", "C16.1:as_obj-identity", "default as_obj(golden) no longer returns the registered probe tree")

    def same_order(self, a: Any, b: Any) -> bool:
        if isinstance(a, dict) and isinstance(b, dict):
            return list(a.keys()) == list(b.keys()) and all(self.same_order(a[k], b[k]) for k in a)
        if isinstance(a, list) and isinstance(b, list):
            return len(a) == len(b) and all(self.same_order(x, y) for x, y in zip(a, b))
        return True

    def first_diff(self, a: Any, b: Any, path: str = "") -> str:
        if isinstance(a, dict) and isinstance(b, dict):
            if list(a.keys()) != list(b.keys()):
                return f"{path or '/'}: keys {list(a.keys())} vs golden {list(b.keys())}"
            for k in a:
                if a[k] != b[k] or not self.same_order(a[k], b[k]):
                    return self.first_diff(a[k], b[k], f"{path}/{k}")
        if isinstance(a, list) and isinstance(b, list) and len(a) == len(b):
            for i, (x, y) in enumerate(zip(a, b)):
                if x != y or not self.same_order(x, y):
                    return self.first_diff(x, y, f"{path}[{i}]")
        return f"{path or '/'}: {a!r} vs golden {b!r}"[:300]

    # ---- ops
    def step(self, op: dict[str, Any]) -> None:
        self.step_no = op.get("step", self.step_no + 1)
        fn = getattr(self, "op_" + op["op"])
        FAULTS.disarm()
        FAULTS.reset_hits()
        self.trace.append(op)
        try:
            outcome = fn(op)
        except SkipOp:
            self.trace.pop()
            self.stats.skipped += 1
            return
        finally:
            FAULTS.disarm()
        self.stats.note_step("persister", op["op"] + ":" + op.get("m", ""), outcome.split(":")[0])
        self.stats.states.add(fp(op.get("m"), sorted(op.get("opts", [])), outcome.split(":")[0], bool(op.get("fault")), (op.get("bad") or {}).get("mut")))

    def op_build(self, op: dict[str, Any]) -> str:
        o = self.builder.build(op["spec"])
        self.handles[op["out"]] = o
        self.kinds[op["out"]] = "node"
        return "ok"

    def op_detach(self, op: dict[str, Any]) -> str:
        o = self.handles.get(op["t"])
        if o is None or self.kinds.get(op["t"]) != "node":
            raise SkipOp("no tree")
        o.detach()
        return "ok"

    def target(self, name: str) -> Any:
        if name.startswith("origin:"):
            return U.ORIGINS[name[7:]]
        if name.startswith("source:"):
            return U.SRC[name[7:]]
        if name.startswith("position:"):
            return U.ORIGINS[name[9:]].position
        o = self.handles.get(name)
        if o is None or self.kinds.get(name) != "node":
            raise SkipOp("no target")
        return o

    def op_call(self, op: dict[str, Any]) -> str:
        if op.get("thread"):
            # the same call issued from a freshly started thread that is joined at once: still a sequence of calls
            import threading

            box: dict[str, Any] = {}

            def run() -> None:
                try:
                    box["ret"] = self._op_call(op)
                except BaseException as e:  # noqa: BLE001
                    box["exc"] = e

            t = threading.Thread(target=run, name="caller")
            t.start()
            t.join()
            self.stats.probes["call_from_fresh_thread"] += 1
            if "exc" in box:
                raise box["exc"]
            return box["ret"]
        return self._op_call(op)

    def arm_nested(self, nested: dict[str, Any] | None) -> None:
        """A property's (de)serialization hook that itself makes a complete library call with its OWN options while
        the outer call is in progress (e.g. a custom type embedding another document): the inner call's options are
        the inner call's, the outer call's are the outer call's, before and after."""
        self.nested_viol = None
        if not nested:
            return

        def inner() -> None:
            try:
                data = call_ser(self.probe, nested["m"], nested["opts"])
                j = Judge(self, nested["opts"], ordered=(nested["m"] != "to_yaml"), dialect_applies=nested["m"] in ("as_dict", "to_yaml"))
                j.any(self.probe, to_doc(data, nested["m"]))
                self.stats.probes["nested_call_judged"] += 1
            except Violation as v:
                v.sig = v.sig + ":nested-inner"
                self.nested_viol = v
            except Exception as e:  # noqa: BLE001
                self.nested_viol = self.viol("C16.0 call-raised", f"C16.0:nested:{type(e).__name__}", f"a nested {nested['m']} call with options {sorted(nested['opts'])} raised {type(e).__name__}: {e}")

        FAULTS.arm_action(nested["site"], nested["k"], inner)

    def _op_call(self, op: dict[str, Any]) -> str:
        m, opts = op["m"], op.get("opts", [])
        flt = op.get("fault")
        outcome = "ok"
        self.arm_nested(op.get("nested"))
        try:
            outcome = self._op_call2(op, m, opts, flt)
        except Violation as v:
            if op.get("nested"):
                v.sig = v.sig + ":nested-outer"
            raise
        if self.nested_viol is not None:
            raise self.nested_viol
        return outcome

    def _op_call2(self, op: dict[str, Any], m: str, opts: list[str], flt: Any) -> str:
        outcome = "ok"
        if m in SER:
            o = self.target(op["t"])
            if flt:
                FAULTS.arm(flt["site"], flt["k"])
            try:
                data = call_ser(o, m, opts)
            except InjectedFault as e:
                self.stats.probes["fault_fired:" + e.site] += 1
                outcome = "raised:InjectedFault"
            except Exception as e:  # noqa: BLE001
                if flt:
                    self.stats.probes["fault_fired:" + flt["site"]] += 1
                    outcome = "raised:" + type(e).__name__
                elif m in ("to_json", "to_jsonb", "to_msgpck") and has_big_int(o):
                    # integers beyond 64 bits are outside what these encoders support: the call may raise (and must
                    # then leave nothing behind), it must not return a document that ignores its options
                    self.stats.probes["call_raised_on_unsupported_int"] += 1
                    outcome = "raised:" + type(e).__name__
                    self.last_hits = {}
                else:
                    raise self.viol("C16.0 call-raised", f"C16.0:{m}:{type(e).__name__}", f"{m} with options {sorted(opts)} raised {type(e).__name__}: {e}") from None
            finally:
                FAULTS.disarm()
            if outcome == "ok":
                if flt:
                    self.stats.probes["fault_not_reached"] += 1
                doc = to_doc(data, m)
                j = Judge(self, opts, ordered=(m != "to_yaml"), dialect_applies=m in ("as_dict", "to_yaml"))
                j.any(o, doc)
                self.stats.probes["mappings_judged"] += j.count
                if op.get("out"):
                    self.handles[op["out"]] = data
                    self.kinds[op["out"]] = "payload"
                    self.meta[op["out"]] = {"m": m, "opts": list(opts), "t": op["t"], "hits": FAULTS.hits.get("tok_ser", 0), "dialect": "dialect" in opts and m in ("as_dict", "to_yaml"), "spec": RW.spec_of(o) if isinstance(o, ASTNode) else None}
                self.last_hits = dict(FAULTS.hits)
        else:
            data = self.handles.get(op["p"])
            if data is None or self.kinds.get(op["p"]) != "payload":
                raise SkipOp("no payload")
            pm = self.meta[op["p"]]
            if PAIR[pm["m"]] != m:
                raise SkipOp("format mismatch")
            bad = op.get("bad")
            if bad:
                data = from_doc(mutate_doc(to_doc(data, m), bad["k"], bad["mut"]), m)
            if flt:
                FAULTS.arm(flt["site"], flt["k"])
            entry = ASTNode
            if op.get("entry") == "cls" and pm.get("spec") is not None:
                entry = U.CLS[pm["spec"]["c"]]
            try:
                res = call_deser(entry, data, m, opts)
            except Exception as e:  # noqa: BLE001
                if not (flt or bad):
                    raise self.viol("C16.0 call-raised", f"C16.0:{m}:{type(e).__name__}", f"{m} with options {sorted(opts)} raised {type(e).__name__}: {e}") from None
                outcome = "raised:" + type(e).__name__
                if flt:
                    self.stats.probes["fault_fired:" + flt["site"]] += 1
                else:
                    self.stats.probes["bad_input_rejected:" + bad["mut"]] += 1
            finally:
                FAULTS.disarm()
            if outcome == "ok" and not bad and pm.get("spec") is not None:
                # the options of a deserialization call take effect on every nested object too: with the dialect the
                # payload was written with, every value (at every depth) must come back as it was
                try:
                    got = RW.spec_of(res)
                except Exception:  # noqa: BLE001
                    got = None
                if got != pm["spec"]:
                    raise self.viol(
                        "C16.11 deserialization-option-effect",
                        f"C16.11:{'dialect' if pm.get('dialect') else 'plain'}",
                        f"{m} with options {sorted(opts)}: the re-created tree differs from the serialized one (a nested value was read without the call's dialect / options)",
                        want=pm["spec"],
                        got=got,
                    )
                self.stats.probes["deser_result_checked" + (":dialect" if pm.get("dialect") else "")] += 1
            if outcome == "ok":
                if bad:
                    self.stats.probes["bad_input_accepted:" + bad["mut"]] += 1
                if op.get("out"):
                    self.handles[op["out"]] = res
                    self.kinds[op["out"]] = "node"
                del res
            self.last_hits = dict(FAULTS.hits)
        if outcome.startswith("raised"):
            self.stats.probes["options_pending_at_fault" if opts else "fault_without_options"] += 1
        self.check_probe(m, outcome, opts)
        return outcome


class Gen:
    def __init__(self, w: World, rng: Rng):
        self.w = w
        self.rng = rng
        self.rw_gen = RW.Gen(w.builder, rng)

    def r(self, n: str):
        return self.rng.s(n)

    def opts(self, m: str) -> list[str]:
        r = self.r("opts")
        pool = [o for o in OPTS if r.random() < self.w.cfg["p_opt"]]
        if "explorer" in pool and "test" in pool:
            pool.remove(r.choice(["explorer", "test"]))
        if "dialect" in pool and "odialect" in pool:
            pool.remove(r.choice(["dialect", "odialect"]))
        for dn in ("dialect", "odialect"):
            if dn in pool and m not in ("as_dict", "to_yaml", "as_obj", "from_yaml"):
                pool.remove(dn)
        return pool

    def run(self) -> None:
        w = self.w
        r = self.r("seq")
        step = 0

        def do(op: dict[str, Any]) -> None:
            nonlocal step
            step += 1
            op["step"] = step
            if op["op"] == "call" and w.cfg.get("threads") and r.random() < 0.35:
                op["thread"] = True
            w.step(op)

        ntrees = r.choice([1, 2, 3])
        self.w.builder.cfg.update(self.w.cfg["build"])
        trees = []
        for i in range(ntrees):
            spec = self.rw_gen.spec(r.choice([1, 2, 3]))
            if "ref" in spec:
                spec = self.rw_gen.spec(0)
            do({"op": "build", "spec": spec, "out": f"t{i}"})
            trees.append(f"t{i}")
        budget = w.cfg["fault_budget"]
        ncalls = r.choice([2, 3, 4, 6])
        payloads: list[str] = []
        for ci in range(ncalls):
            if payloads and r.random() < 0.45:
                # deserialization call
                p = r.choice(payloads)
                m = PAIR[w.meta[p]["m"]]
                opts = [o for o in self.opts(m) if o != "dialect"]
                if w.meta[p].get("dialect"):
                    opts.append("dialect")
                t = w.meta[p]["t"]
                if t in w.handles and r.random() < 0.8:
                    do({"op": "detach", "t": t})
                entry = r.choice(["ASTNode", "cls"])
                do({"op": "call", "m": m, "p": p, "opts": opts, "out": f"r{ci}", "entry": entry})
                if w.cfg.get("nested") and w.last_hits.get("tok_deser", 0) > 0 and r.random() < 0.6:
                    if t in w.handles:
                        do({"op": "detach", "t": t})
                    if f"r{ci}" in w.handles and w.kinds.get(f"r{ci}") == "node":
                        do({"op": "detach", "t": f"r{ci}"})
                    nm = r.choice(SER)
                    do({"op": "call", "m": m, "p": p, "opts": opts, "entry": entry, "nested": {"site": "tok_deser", "k": r.randint(1, w.last_hits["tok_deser"]), "m": nm, "opts": self.opts(nm)}})
                if w.cfg["faults"] and budget > 0:
                    doc = to_doc(w.handles[p], m)
                    nmaps = len(node_maps(doc, []))
                    sites: list[dict[str, Any]] = []
                    for k in range(w.last_hits.get("tok_deser", 0)):
                        sites.append({"fault": {"site": "tok_deser", "k": k + 1}})
                    for k in range(nmaps):
                        sites.append({"bad": {"k": k, "mut": r.choice(MUTS)}})
                    if len(sites) > budget:
                        sites = r.sample(sites, budget)
                    for s in sites:
                        budget -= 1
                        if t in w.handles:
                            do({"op": "detach", "t": t})
                        # a re-created tree of an earlier (un-faulted) call may still be registered: detach it too
                        if f"r{ci}" in w.handles and w.kinds.get(f"r{ci}") == "node":
                            do({"op": "detach", "t": f"r{ci}"})
                        do({"op": "call", "m": m, "p": p, "opts": opts, "entry": entry, **s})
            else:
                m = r.choice(SER)
                opts = self.opts(m)
                kind = r.random()
                if kind < 0.8:
                    t = r.choice(trees)
                elif kind < 0.9:
                    t = "origin:" + r.choice(U.ORIGIN_KEYS)
                else:
                    t = r.choice(["source:a", "source:b", "position:c:a:0-5", "position:m:ab"])
                keep = t in trees and not ({"skip", "test", "explorer", "odialect"} & set(opts))
                out = f"p{ci}" if keep else None
                do({"op": "call", "m": m, "t": t, "opts": opts, "out": out})
                if out and out in w.handles:
                    payloads.append(out)
                if w.cfg.get("nested") and t in trees and w.last_hits.get("tok_ser", 0) > 0 and r.random() < 0.6:
                    nm = r.choice(SER)
                    do({"op": "call", "m": m, "t": t, "opts": opts, "nested": {"site": "tok_ser", "k": r.randint(1, w.last_hits["tok_ser"]), "m": nm, "opts": self.opts(nm)}})
                if w.cfg["faults"] and budget > 0 and t in trees:
                    n = w.last_hits.get("tok_ser", 0)
                    ks = list(range(1, n + 1))
                    if len(ks) > budget:
                        ks = r.sample(ks, budget)
                    for k in ks:
                        budget -= 1
                        do({"op": "call", "m": m, "t": t, "opts": opts, "fault": {"site": "tok_ser", "k": k}})
            # an interleaved plain default call by "another actor"
            if r.random() < 0.5:
                do({"op": "call", "m": r.choice(SER), "t": r.choice(trees), "opts": []})


def make_config(rseed: int, prop: str, tier: str, faults: bool) -> dict[str, Any]:
    rng = Rng(rseed)
    r = rng.s("config")
    strpool = r.sample(U.STR_POOL, r.choice([2, 3, 5]))
    leafs = ["LeafA", "LeafB", "Carrier", "Carrier", "Vals", "Upper"] + r.sample(["Meta", "LeafA2", "Lit", "Typed", "Located", "Both", "Paths", "Paths", "LocalLeaf"], r.choice([0, 1, 3, 6]))
    return {
        "machine": NAME,
        "prop": prop,
        "digest": r.choice([8, 8, 16]),
        "faults": faults,
        "p_opt": r.choice([0.2, 0.35, 0.5, 0.7]),
        "fault_budget": 64 if tier == "thorough" else r.choice([12, 24, 64]),
        "threads": r.random() < 0.3,
        "shared_opts": r.random() < 0.5,
        "nested": r.random() < 0.4,
        "falsy_keys": r.random() < 0.3,
        "build": {
            "maxd": r.choice([2, 3]),
            "maxw": r.choice([2, 3, 4]),
            "p_ref": r.choice([0.0, 0.1]),
            "leaf_classes": leafs,
            "inner_classes": r.sample(["Pair", "Seq", "Mixed", "Fixed", "SeqPlus", "Falsy"], r.choice([2, 3, 4, 6])),
            "origins": r.sample(U.ORIGIN_KEYS + U.EXTRA_ORIGIN_KEYS, r.choice([2, 3, 5])),
            "pools": {"str": strpool, "bool": [True, False], **({"int": [0, 7, 2**64, -(2**70)]} if r.random() < 0.2 else {})},
            "actors": ["persister"],
            "rtc": False,
        },
    }


def run(cfg: dict[str, Any], prop: str, rseed: int | None = None, ops: list[dict[str, Any]] | None = None, peer: Any = None) -> dict[str, Any]:
    violation = None
    w = None
    try:
        w = World(cfg, prop)
        if ops is None:
            assert rseed is not None
            Gen(w, Rng(rseed)).run()
        else:
            for op in ops:
                w.step(dict(op))
    except Violation as v:
        violation = v.as_dict()
    out = w.stats.as_dict() if w is not None else RunStats().as_dict()
    out["ops"] = w.trace if w is not None else []
    out["violation"] = violation
    out["cut"] = None
    out["faults_fired"] = dict(FAULTS.fired)
    out["faults_armed"] = dict(FAULTS.armed_count)
    k = out["opkinds"]
    out["nontrivial"] = sum(v for kk, v in k.items() if kk.startswith("call")) >= 2
    return out
