"""Determinism self-test: every run seed is executed twice, in two different worker processes (so at different
positions of different job sequences, with different heap states), and the results are diffed: abstract trace digest,
op list, violation signature, probe counters, state fingerprints.  Any diff is a harness bug.

  python selftest/determinism.py [--n 300] [PROP ...]
"""
import argparse
import json
import os
import sys

sys.path.insert(0, os.path.dirname(os.path.dirname(os.path.abspath(__file__))))
from checks.plans import PLANS  # noqa: E402
from simkit import rng as R  # noqa: E402
from simkit import runner  # noqa: E402

ap = argparse.ArgumentParser()
ap.add_argument("--n", type=int, default=300)
ap.add_argument("--seed", type=int, default=77)
ap.add_argument("props", nargs="*")
a = ap.parse_args()
props = a.props or sorted(PLANS)
bad = 0


def key(r):
    return json.dumps(
        {k: r.get(k) for k in ("trace_digest", "states", "probes", "steps", "skipped", "cut", "opkinds")} | {"sig": (r.get("violation") or {}).get("sig"), "msg": (r.get("violation") or {}).get("message")},
        sort_keys=True,
        default=str,
    )


for p in props:
    plan = PLANS[p]
    res = []
    for rnd, nworkers in ((0, 16), (1, 5)):
        os.environ["VERIF_WORKERS"] = str(nworkers)
        b = runner.Batch(p, plan["machine"], "quick", a.seed, a.n, 600, with_peer=plan.get("peer", False), stop_on_violation=False)
        if rnd == 1:
            # other job order inside each worker: reverse the queues
            orig = b.jobs
            b.jobs = lambda: [list(reversed(g)) for g in orig()]
        b.run()
        if b.errors:
            print(p, "HARNESS ERRORS", b.errors[:2])
            bad += 1
        res.append({r["rseed"]: key(r) for r in b.results})
    diff = [s for s in res[0] if res[0][s] != res[1].get(s)]
    missing = set(res[0]) ^ set(res[1])
    print(f"{p}: {len(res[0])} seeds twice (16 workers vs 5 workers, reversed order): {len(diff)} differ, {len(missing)} missing")
    for s in diff[:3]:
        print("   seed", s)
        x, y = json.loads(res[0][s]), json.loads(res[1].get(s, "{}"))
        for k in x:
            if x[k] != y.get(k):
                print("     ", k, str(x[k])[:200], "|", str(y.get(k))[:200])
    bad += len(diff) + len(missing)
print("DETERMINISM", "OK" if bad == 0 else f"FAILED ({bad})")
sys.exit(0 if bad == 0 else 1)
