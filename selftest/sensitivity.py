"""Sensitivity self-test: every calibration mutant (selftest/mutants/<prop>-<name>.diff) and every seeded change
(seeded/<id>/patch.diff) is applied to a scratch worktree of /repo HEAD; the existing test suite must still pass
(244) and the quick tier of the broken property must report a violation.  Results -> selftest/sensitivity.json.

  python selftest/sensitivity.py [--only substring] [--skip-tests]
"""
import argparse
import glob
import json
import os
import shutil
import subprocess
import sys
import time

VERIF = os.path.dirname(os.path.dirname(os.path.abspath(__file__)))
PY = "/venv/bin/python"
ap = argparse.ArgumentParser()
ap.add_argument("--only", default="")
ap.add_argument("--skip-tests", action="store_true")
a = ap.parse_args()


def sh(cmd, **kw):
    return subprocess.run(cmd, shell=True, capture_output=True, text=True, **kw)


items = []
for f in sorted(glob.glob(f"{VERIF}/selftest/mutants/*.diff")):
    base = os.path.basename(f)[:-5]
    prop, name = base.split("-", 1)
    items.append((name, prop, f, "calibration"))
for d in sorted(glob.glob(f"{VERIF}/seeded/*/")):
    m = json.load(open(d + "meta.json"))
    if m.get("neutralised"):
        continue
    items.append((m["id"], m["breaks_property"], d + "patch.diff", "seeded"))
out_path = os.environ.get("SENS_OUT", f"{VERIF}/selftest/sensitivity.json")
results = json.load(open(out_path)) if os.path.exists(out_path) else {}
head = sh("git -C /repo rev-parse --short HEAD").stdout.strip()
vhead = sh(f"git -C {VERIF} rev-parse --short HEAD").stdout.strip()
missed = 0
for name, prop, patch, kind in items:
    if a.only and a.only not in name and a.only != prop:
        continue
    wt = f"/tmp/senswt-{os.getpid()}"
    sh(f"git -C /repo worktree remove --force {wt}")
    assert sh(f"git -C /repo worktree add -q --detach {wt} HEAD").returncode == 0
    try:
        r = sh(f"git -C {wt} apply {patch}")
        if r.returncode != 0:
            r = sh(f"git -C {wt} apply --3way {patch}")
        if r.returncode != 0:
            print(f"{name}: PATCH DOES NOT APPLY on {head}: {r.stderr.strip()[:200]}")
            results[name] = {"property": prop, "kind": kind, "applies": False, "repo": head}
            continue
        tests = "skipped"
        if not a.skip_tests:
            t = sh(f"cd {wt} && PYTHONPATH={wt}/src {PY} -m pytest -q -p no:cacheprovider 2>&1 | tail -1")
            tests = t.stdout.strip()
        ed = f"/tmp/sens-ev-{os.getpid()}"
        env = dict(os.environ, VERIF_REPO_SRC=f"{wt}/src", VERIF_EVIDENCE_DIR=ed, VERIF_REPLAY_DIR=ed)
        t0 = time.time()
        r = sh(f"cd {VERIF} && timeout 1200 {PY} -B -m checks.run --property {prop} --tier quick", env=env)
        dt = time.time() - t0
        lines = [l for l in r.stdout.splitlines() if l.startswith(("violation:", "HARNESS"))]
        results[name] = {
            "property": prop,
            "kind": kind,
            "applies": True,
            "tests": tests,
            "detected": r.returncode == 1,
            "exit": r.returncode,
            "seconds_to_verdict": round(dt, 1),
            "first_violation": lines[0][:300] if lines else None,
            "repo": head,
            "verif": vhead,
        }
        flag = "DETECTED" if r.returncode == 1 else f"MISSED(exit {r.returncode})"
        if r.returncode != 1:
            missed += 1
        print(f"{name} [{prop}, {kind}] tests: {tests[:22]} -> {flag} in {dt:.0f}s {lines[0][:140] if lines else ''}", flush=True)
        shutil.rmtree(ed, ignore_errors=True)
    finally:
        sh(f"git -C /repo worktree remove --force {wt}")
        shutil.rmtree(wt, ignore_errors=True)
    json.dump(results, open(out_path, "w"), indent=1)
print("missed:", missed)
