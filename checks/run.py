"""Single entry point of every registered check.

    python -m checks.run --property C03 --tier quick|thorough
    python -m checks.run --replay /verif/replays/C03-<seed>.json

Honours VERIF_SEED and VERIF_TIER.  Exit 0 / 1 (VIOLATION line) / 2 (harness error).
"""
from __future__ import annotations

import argparse
import os
import sys

sys.path.insert(0, os.path.dirname(os.path.dirname(os.path.abspath(__file__))))

from checks.plans import PLANS  # noqa: E402
from simkit import rng as R  # noqa: E402
from simkit import runner  # noqa: E402


def main() -> int:
    ap = argparse.ArgumentParser()
    ap.add_argument("--property")
    ap.add_argument("--tier", default=None)
    ap.add_argument("--replay")
    a = ap.parse_args()
    if a.replay:
        return runner.replay_file(a.replay)
    tier = a.tier or os.environ.get("VERIF_TIER") or "quick"
    if tier not in ("quick", "thorough"):
        tier = "quick"
    seed = int(os.environ.get("VERIF_SEED", R.DEFAULT_VERIF_SEED))
    plan = PLANS[a.property]
    if "custom" in plan:
        return plan["custom"](plan, a.property, tier, seed)
    return runner.execute(plan, a.property, tier, seed)


if __name__ == "__main__":
    try:
        code = main()
    except SystemExit:
        raise
    except BaseException as e:  # noqa: BLE001
        import traceback

        traceback.print_exc()
        print(f"HARNESS-ERROR: {type(e).__name__}: {e}")
        code = 2
    sys.exit(code)
