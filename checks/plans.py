"""Per-property check plans (machine, budgets, evidence texts)."""
from __future__ import annotations

PLANS = {
    "C03": {
        "machine": "regworld",
        "level": "exploration",
        "runs": {"quick": 6000, "thorough": 120000},
        "wall_cap": {"quick": 75, "thorough": 900},
        "rule": "one evaluation = one seeded run of the registry world (1-4 actors, <=60 public ops incl. drops+GC, "
        "failing replaces, stale-handle ops; ID_DIGEST_SIZE in {1,2,8,16}); distinct = distinct abstract traces "
        "(actor,op,outcome sequence); non-trivial = at least one content-identical twin was created and at least one "
        "detach/detach_self/replace/drop was executed",
        "expect_probes": ["twin_created", "suffix_id_assigned", "stale_handle_op_while_twin_live", "detach_depth_ge_3", "same_id_again"],
        "assumptions": ["reference registry model of DESIGN.md A.2", "GC runs only when the scheduler says so (gc.disable + explicit collect)"],
    },
    "C14": {
        "machine": "regworld",
        "level": "exploration",
        "runs": {"quick": 6000, "thorough": 120000},
        "wall_cap": {"quick": 75, "thorough": 900},
        "rule": "one evaluation = one seeded run of the registry world with duplicate / ASTNode.replace / dataclasses.replace "
        "applied to registered and detached originals, with and without registered twins, shared subtrees, non-init and "
        "non-comparable fields; distinct = distinct abstract traces; non-trivial = at least one duplicate/replace executed",
        "expect_probes": ["twin_created", "duplicate_depth_ge_2", "duplicate_of_tree_with_shared_subtree"],
        "assumptions": ["registry model of DESIGN.md A.2", "id expectations only where no registered twin exists and digest >= 8 (no suffix format assumed)"],
    },
    "C10": {
        "machine": "regworld",
        "level": "exploration",
        "runs": {"quick": 5000, "thorough": 100000},
        "wall_cap": {"quick": 75, "thorough": 900},
        "rule": "one evaluation = one seeded run of the union world (all v2 op kinds); after every op every pre-existing "
        "reachable node is compared with its value+identity snapshot; distinct = distinct abstract traces; non-trivial = >=5 steps and >=3 op kinds",
        "expect_probes": [],
        "assumptions": ["snapshot = id, content_id, hash, identity of every field value, repr of scalar values, element identities of tuples"],
    },
    "C01": {
        "machine": "regworld",
        "level": "exploration",
        "runs": {"quick": 5000, "thorough": 100000},
        "wall_cap": {"quick": 75, "thorough": 900},
        "rule": "one evaluation = one seeded run of the registry world biased to twins and near-miss mutants; after every step "
        "all reachable nodes are grouped by harness-side structural key and by content_id (must be the same partition); "
        "distinct = distinct abstract traces; non-trivial = a twin was created or >= 5 steps",
        "expect_probes": ["twin_created"],
        "assumptions": ["structural key of DESIGN.md A.1 computed from field values by the universe TABLE", "digest sizes >= 8 only"],
    },
}
