"""Per-property check plans (machine, budgets, evidence texts)."""
from __future__ import annotations

PLANS = {
    "C03": {
        "machine": "regworld",
        "technique": 'deterministic simulation: seeded multi-actor op histories over the shared node registry with scheduler-owned GC, failing replaces and stale-handle ops, checked after every step against a reference registry model; ddmin-shrunk replay files',
        "level_text": 'seeded exploration of histories (thousands of runs x <=60 steps) of every registry-relevant public op by 1-4 actors, with ID_DIGEST_SIZE in {1,2,8,16}, reference-model invariants after every step; evidence, not proof',
        "level_note": 'trusted: the reference registry model (DESIGN A.2), the universe TABLE for child enumeration, CPython weakref/gc semantics; the id-determinism clause is only checked at digest >= 8 and only when no registered twin exists (no suffix format assumed)',
        "design_ref": 'DESIGN.md 5/C03, A.2',
        "level": "exploration",
        "runs": {"quick": 6000, "thorough": 120000},
        "wall_cap": {"quick": 75, "thorough": 900},
        "rule": "one evaluation = one seeded run of the registry world (1-4 actors, <=60 public ops incl. drops+GC, "
        "failing replaces, stale-handle ops; ID_DIGEST_SIZE in {1,2,8,16}); distinct = distinct abstract traces "
        "(actor,op,outcome sequence); non-trivial = at least one content-identical twin was created and at least one "
        "detach/detach_self/replace/drop was executed",
        "expect_probes": ["twin_created", "suffix_id_assigned", "stale_handle_op_while_twin_live", "detach_depth_ge_3", "same_id_again"],
        "assumptions": ["reference registry model of DESIGN.md A.2", "GC runs only when the scheduler says so (gc.disable + explicit collect)"],
    },
    "C14": {
        "machine": "regworld",
        "technique": 'deterministic simulation: same registry world; duplicate / ASTNode.replace / dataclasses.replace post-conditions checked per op under arbitrary registry histories (twins, detached originals, shared subtrees)',
        "level_text": 'seeded exploration of histories; per-op oracles for faithfulness, object-independence (identity over whole trees), registration and id rules',
        "level_note": 'trusted: universe TABLE, registry model; expected ids only in the no-registered-twin case at digest >= 8',
        "design_ref": 'DESIGN.md 5/C14',
        "level": "exploration",
        "runs": {"quick": 6000, "thorough": 120000},
        "wall_cap": {"quick": 75, "thorough": 900},
        "rule": "one evaluation = one seeded run of the registry world with duplicate / ASTNode.replace / dataclasses.replace "
        "applied to registered and detached originals, with and without registered twins, shared subtrees, non-init and "
        "non-comparable fields; distinct = distinct abstract traces; non-trivial = at least one duplicate/replace executed",
        "expect_probes": ["twin_created", "duplicate_depth_ge_2", "duplicate_of_tree_with_shared_subtree"],
        "assumptions": ["registry model of DESIGN.md A.2", "id expectations only where no registered twin exists and digest >= 8 (no suffix format assumed)"],
    },
    "C10": {
        "machine": "regworld",
        "technique": 'deterministic simulation: union world of all v2 op kinds incl. faulting callbacks; frame-condition monitor (value+identity snapshot of every pre-existing node) after every step',
        "level_text": 'seeded exploration of histories; the frame condition is evaluated on every reachable pre-existing node after every op (returned or raised)',
        "level_note": 'trusted: snapshot function (id, content_id, hash, field value identities, scalar reprs); nodes unreachable from user handles are not monitored (they are required dead by C03)',
        "design_ref": 'DESIGN.md 5/C10',
        "level": "exploration",
        "runs": {"quick": 5000, "thorough": 100000},
        "wall_cap": {"quick": 75, "thorough": 900},
        "rule": "one evaluation = one seeded run of the union world (all v2 op kinds); after every op every pre-existing "
        "reachable node is compared with its value+identity snapshot; distinct = distinct abstract traces; non-trivial = >=5 steps and >=3 op kinds",
        "expect_probes": [],
        "assumptions": ["snapshot = id, content_id, hash, identity of every field value, repr of scalar values, element identities of tuples"],
    },
    "C01": {
        "machine": "regworld",
        "peer": True,
        "technique": 'deterministic simulation: registry world biased to twins / near-miss mutants / separator-bearing strings, partition check content_id vs harness-side structural key after every step; peer interpreter with another PYTHONHASHSEED and permuted field declaration order',
        "level_text": 'seeded exploration; decides independence of content_id from registry history, lifetime, process/hash seed and field order; injectivity is sampled on all node pairs each world state contains',
        "level_note": 'trusted: structural key (DESIGN A.1) from the universe TABLE; digest sizes >= 8 only; the pure injectivity core is sampled, not enumerated',
        "design_ref": 'DESIGN.md 5/C01, A.1',
        "level": "exploration",
        "runs": {"quick": 5000, "thorough": 100000},
        "wall_cap": {"quick": 75, "thorough": 900},
        "rule": "one evaluation = one seeded run of the registry world biased to twins and near-miss mutants; after every step "
        "all reachable nodes are grouped by harness-side structural key and by content_id (must be the same partition); "
        "distinct = distinct abstract traces; non-trivial = a twin was created or >= 5 steps",
        "expect_probes": ["twin_created"],
        "assumptions": ["structural key of DESIGN.md A.1 computed from field values by the universe TABLE", "digest sizes >= 8 only"],
    },
    "C04": {
        "machine": "regworld",
        "peer": True,
        "technique": "deterministic simulation: persister scripts (snapshot+serialize ... deserialize) with other actors' ops and crashes (drops of any part of the tree, twins created/dropped, id take-over) interleaved in the gap; end points: same interpreter or a fresh peer interpreter (other hash seed, pristine registry, sources loaded from the shipped table); harness-side snapshot oracle",
        "level_text": "seeded exploration of histories x 4 formats x {default, index-based sources} x alive-subsets at read time; every position of every round-trip judged against a harness-side snapshot (identity for registered originals, exact class/id/content_id/property types/origin/sharing for re-created nodes)",
        "level_note": "trusted: harness snapshot (never pyoak's serializer), universe TABLE; positions whose id was taken over by another live node are exempt per the property's proviso and taint their ancestors (own fields still compared); Source._raw is documented as not serialized and excluded",
        "design_ref": "DESIGN.md 5/C04",
        "level": "exploration",
        "runs": {"quick": 4000, "thorough": 80000},
        "wall_cap": {"quick": 80, "thorough": 900},
        "rule": "one evaluation = one seeded run with serialize/deserialize scripts interleaved with drops, detaches, twins; distinct = distinct abstract traces; non-trivial = at least one deserialization (same process or fresh process) was judged",
        "expect_probes": ["deser_reused_live_node", "deser_recreated", "deser_forced_id", "id_taken_over", "shared_subtree_roundtrip", "fresh_process_roundtrip", "roundtrip_fully_judged"],
        "assumptions": ["value kinds limited to the representable kinds of the property (no frozensets)", "YAML/JSON/msgpack libraries are real (PyYAML C loader, orjson, msgpack)"],
    },
    "C09": {
        "machine": "regworld",
        "technique": "deterministic simulation with fault enumeration: rule-set visitors (keep/rewrite/fresh/existing/remove/raise, strict and MRO dispatch) transform trees inside the shared registry world; every transform is repeated with the k-th visitor call raising for every k; reference rewriting (A.4) with identity expectations",
        "level_text": "histories sampled by seed; for each transformed tree every visitor-call fault position k is enumerated (all k when <= 24 calls, else 24 evenly spaced); result compared position by position with the reference rewriting incl. object identity; frame condition on all pre-existing nodes after every (faulted) transform",
        "level_note": "trusted: reference rewriting of DESIGN A.4 under the stated convention (visit_X = generic_visit then rule; rules produce new objects); RUNTIME_TYPE_CHECK off in this machine (ill-typed rewrites would be rejected by design)",
        "design_ref": "DESIGN.md 5/C09, A.4",
        "level": "fault_enumeration",
        "runs": {"quick": 4000, "thorough": 80000},
        "wall_cap": {"quick": 80, "thorough": 900},
        "rule": "one evaluation = one seeded run; each transform op inside it is executed once plain and once per enumerated fault position; distinct = distinct abstract traces; non-trivial = at least one transform executed",
        "expect_probes": ["transform_changed_tree", "transform_unchanged_tree", "transform_fault_enumerated", "transform_raised_midway"],
        "assumptions": ["a node object sitting at two positions is visited once per position"],
    },
}
