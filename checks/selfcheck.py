"""setup_cmd: nothing to build (pure Python); assert the toolchain is usable offline."""
import os
import sys

sys.path.insert(0, os.path.dirname(os.path.dirname(os.path.abspath(__file__))))
repo_src = os.environ.get("VERIF_REPO_SRC", "/repo/src")
sys.path.insert(0, repo_src)
import pyoak  # noqa: E402

assert os.path.realpath(pyoak.__file__).startswith(os.path.realpath(repo_src)), pyoak.__file__
import lark, mashumaro, msgpack, orjson, yaml  # noqa: E402,F401

from simkit import core, rng, runner, shrink  # noqa: E402,F401

for d in ("evidence", "replays"):
    os.makedirs(os.path.join(os.path.dirname(os.path.dirname(os.path.abspath(__file__))), d), exist_ok=True)
print("selfcheck ok: pyoak from", pyoak.__file__)
